CONSTANT R = 3
CONSTANT Cn = 2
SPECIFICATION Spec
CHECK_DEADLOCK FALSE
