CONSTANT R = 2
CONSTANT Cn = 2
SPECIFICATION Spec
CHECK_DEADLOCK FALSE
