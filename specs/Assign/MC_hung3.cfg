CONSTANT N = 3
CONSTANT CSet <- CNeg
CONSTANT Bug = "none"
SPECIFICATION Spec
INVARIANT DualFeasible
INVARIANT MatchedTight
INVARIANT IsMatching
INVARIANT Optimal
INVARIANT Progress
INVARIANT MaxTwin
INVARIANT DpTwin
CHECK_DEADLOCK FALSE
