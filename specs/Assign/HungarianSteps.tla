---------------------------- MODULE HungarianSteps ----------------------------
(* Step-level validation of solve_hungarian against the design spec Hungarian (C10).          *)
(* The implementation inserts the rows of the padded square matrix one at a time; after each  *)
(* insertion (one hook event: potentials u, v and the column -> row matching) the state must  *)
(* satisfy, on the rows inserted so far, the invariants Hungarian.tla proves for every        *)
(* reachable state:                                                                            *)
(*   IsMatching    rows 1..k are matched to k distinct columns, no other row is matched        *)
(*   DualFeasible  u[i] + v[j] <= C[i][j] for every inserted row i and every column j          *)
(*   MatchedTight  u[i] + v[j]  = C[i][j] for every matched cell                               *)
(* and after the last insertion the certificate of Hungarian!Optimal: the cost of the perfect  *)
(* matching equals sum(u) + sum(v).  Numbers are exact: entries are multiples of 1/scale and   *)
(* are logged times scale.  Diagnostic (`div`); the returned assignment is decided by          *)
(* AssignTrace.                                                                                 *)
EXTENDS Integers, FiniteSets, Sequences, TLC, Json, IOUtils
Batch == JsonDeserialize(IOEnv.TRACE_FILE)
VARIABLES tid, l, div
vars == <<tid, l, div>>
T == Batch[tid]
N == T.n
C == T.matrix
RECURSIVE SumTo(_, _)
SumTo(f, k) == IF k = 0 THEN 0 ELSE f[k] + SumTo(f, k - 1)
Init == tid \in 1..Len(Batch) /\ l = 1 /\ div = {}
Guards(s) ==
  LET k == s.row
      rowof == s.match                       \* rowof[j] = row matched to column j, 0 = free
      matchedcols == {j \in 1..N : rowof[j] # 0}
      ismatching == /\ {rowof[j] : j \in matchedcols} = 1..k
                    /\ Cardinality(matchedcols) = k
      feasible == \A i \in 1..k : \A j \in 1..N : s.u[i] + s.v[j] <= C[i][j]
      tight == \A j \in matchedcols : rowof[j] \in 1..N => s.u[rowof[j]] + s.v[j] = C[rowof[j]][j]
      cost == SumTo([j \in 1..N |-> IF rowof[j] \in 1..N THEN C[rowof[j]][j] ELSE 0], N)
  IN (IF ~s.exact THEN {}
      ELSE (IF ismatching THEN {} ELSE {"Stage.not_a_matching_of_the_inserted_rows"})
           \cup (IF feasible THEN {} ELSE {"Stage.potentials_not_dual_feasible"})
           \cup (IF tight THEN {} ELSE {"Stage.matched_cell_not_tight"})
           \cup (IF k = N /\ ismatching /\ cost # SumTo(s.u, N) + SumTo(s.v, N) THEN {"Final.cost_differs_from_dual_value"} ELSE {}))
Step == /\ l <= Len(T.stages) /\ l' = l + 1 /\ UNCHANGED tid
        /\ div' = div \cup Guards(T.stages[l])
                      \cup (IF T.stages[l].row = l THEN {} ELSE {"Stage.rows_not_inserted_in_order"})
Spec == Init /\ [][Step]_vars
Report == (l = Len(T.stages) + 1) =>
            PrintT(ToJson([tid |-> tid, ok |-> TRUE, why |-> "", l |-> l, stages |-> Len(T.stages),
                           div |-> div \cup (IF Len(T.stages) = N THEN {} ELSE {"Final.not_every_row_inserted"})]))
===============================================================================
