CONSTANT R = 2
CONSTANT Cn = 3
SPECIFICATION Spec
CHECK_DEADLOCK FALSE
