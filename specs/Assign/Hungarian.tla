---------------------------- MODULE Hungarian ----------------------------
(* The Hungarian method at design level (DESIGN §5 C10): row/column potentials u, v, a        *)
(* matching M of tight cells; steps: augment along ANY alternating path of tight cells from a  *)
(* free row to a free column, or - when none exists - the dual adjustment by the minimum slack *)
(* between reached rows and unreached columns.  For ALL N x N matrices over CSet TLC checks:   *)
(* dual feasibility and tightness of matched cells are invariant; when the matching is perfect *)
(* its cost equals OptAssign (recursion), its twin (enumeration) and sum(u) + sum(v).          *)
EXTENDS AssignDefs, TLC
CONSTANTS N, CSet, Bug
Rows == 1..N
Cols == 1..N
VARIABLES C, u, v, M
vars == <<C, u, v, M>>
CNeg == {-1, 0, 2}
CPos == {0, 1, 3}
Init == /\ C \in [Rows -> [Cols -> CSet]]
        /\ u = [i \in Rows |-> MinOf({C[i][j] : j \in Cols})] /\ v = [j \in Cols |-> 0] /\ M = {}
Tight(i, j) == u[i] + v[j] = C[i][j]
FreeRows == {i \in Rows : ~\E j \in Cols : <<i, j>> \in M}
FreeCols == {j \in Cols : ~\E i \in Rows : <<i, j>> \in M}
\* alternating reachability from the free rows: rows S, columns T
RECURSIVE Reach(_, _)
Reach(S, T) == LET T2 == T \cup {j \in Cols : \E i \in S : Tight(i, j) /\ <<i, j>> \notin M}
                   S2 == S \cup {i \in Rows : \E j \in T2 : <<i, j>> \in M}
               IN IF S2 = S /\ T2 = T THEN <<S, T>> ELSE Reach(S2, T2)
RS == Reach(FreeRows, {})[1]
RT == Reach(FreeRows, {})[2]
\* augmenting paths as sequences r1, c1, r2, c2, ..., ck with (ri,ci) tight unmatched, (r(i+1), ci) matched
RECURSIVE Paths(_)
Paths(P) == LET ext == {p \o <<j, i>> : p \in P, j \in Cols, i \in Rows} IN
            LET ok == {q \in ext : LET n == Len(q) IN Tight(q[n - 2], q[n - 1]) /\ <<q[n - 2], q[n - 1]>> \notin M /\ <<q[n], q[n - 1]>> \in M
                                                     /\ \A k \in 1..(n - 2) : (k % 2 = 1 => q[k] # q[n]) /\ (k % 2 = 0 => q[k] # q[n - 1])}
            IN IF ok = {} THEN P ELSE P \cup Paths(ok)
AugPaths == {p \o <<j>> : p \in Paths({<<i>> : i \in FreeRows}), j \in FreeCols} 
Valid(p) == LET n == Len(p) IN Tight(p[n - 1], p[n]) /\ <<p[n - 1], p[n]>> \notin M /\ \A k \in 1..(n - 1) : k % 2 = 0 => p[k] # p[n]
Augment == /\ \E p \in {q \in AugPaths : Valid(q)} :
                M' = (M \ {<<p[k + 1], p[k]>> : k \in {x \in 1..(Len(p) - 1) : x % 2 = 0}})
                       \cup {<<p[k], p[k + 1]>> : k \in {x \in 1..(Len(p) - 1) : x % 2 = 1}}
           /\ UNCHANGED <<C, u, v>>
DualStep == /\ FreeRows # {} /\ RT \cap FreeCols = {}
            /\ LET slack == {C[i][j] - u[i] - v[j] : i \in RS, j \in Cols \ RT}
                   d == IF Bug = "delta_off_by_one" THEN MinOf(slack) + 1 ELSE MinOf(slack)
               IN /\ u' = [i \in Rows |-> IF i \in RS THEN u[i] + d ELSE u[i]]
                  /\ v' = [j \in Cols |-> IF j \in RT THEN v[j] - d ELSE v[j]]
            /\ UNCHANGED <<C, M>>
Next == Augment \/ DualStep
Spec == Init /\ [][Next]_vars
DualFeasible == \A i \in Rows, j \in Cols : u[i] + v[j] <= C[i][j]
MatchedTight == \A p \in M : Tight(p[1], p[2])
IsMatching == \A p, q \in M : p # q => p[1] # q[1] /\ p[2] # q[2]
Cost == SumOver(M, LAMBDA p : C[p[1]][p[2]])
Optimal == Cardinality(M) = N =>
             /\ Cost = OptAssign(C, TRUE) /\ Cost = OptMinTwin(C)
             /\ Cost = SumOver(Rows, LAMBDA i : u[i]) + SumOver(Cols, LAMBDA j : v[j])
Progress == Cardinality(M) < N => ENABLED Next
MaxTwin == OptAssign(C, FALSE) = -OptMinTwin(Neg(C))
\* the subset dynamic programme AssignTrace uses beyond 7 columns agrees with the recursion and with plain enumeration
DpTwin == DpMin(C) = RowMin(C, 1, {}) /\ DpMin(C) = OptMinTwin(C)
==========================================================================
