---------------------------- MODULE AssignExport ----------------------------
(* Spec -> code: every R x C matrix over the value set, with the optimum the spec expects.     *)
EXTENDS AssignDefs, SequencesExt, TLC, Json, IOUtils
CONSTANTS R, Cn
Vals == {-1, 0, 2}
Mats == [1..R -> [1..Cn -> Vals]]
Case(M) == [matrix |-> M, optmin |-> OptAssign(M, TRUE), optmax |-> OptAssign(M, FALSE)]
ASSUME ndJsonSerialize(IOEnv.EXPORT_FILE, SetToSeq({Case(M) : M \in Mats}))
VARIABLE x
Init == x = 0
Next == UNCHANGED x
Spec == Init /\ [][Next]_x
=============================================================================
