---------------------------- MODULE AssignTrace ----------------------------
(* Batch validation of solve_hungarian (C10): matrix entries in units of 1/4.                  *)
EXTENDS AssignDefs, TLC, Json, IOUtils
Batch == JsonDeserialize(IOEnv.TRACE_FILE)
VARIABLES tid, l, ok, why
vars == <<tid, l, ok, why>>
T == Batch[tid]
C == T.matrix
Init == tid \in 1..Len(Batch) /\ l = 1 /\ ok = TRUE /\ why = ""
Check(e) ==
  IF e.e = "raise" THEN "Raise." \o e.what
  ELSE IF e.e = "noreturn" THEN "NoReturn"
  ELSE LET a == e.assignment
           used == {i \in 1..Len(a) : a[i] # -1}
           k == IF NR(C) <= NC(C) THEN NR(C) ELSE NC(C)
       IN IF e.status # "OPTIMAL" THEN "Return.unexpected_status"
          ELSE IF Len(a) # NR(C) THEN "Assignment.length_is_not_number_of_rows"
          ELSE IF \E i \in used : a[i] < 0 \/ a[i] >= NC(C) THEN "Assignment.column_out_of_range"
          ELSE IF \E i, j \in used : i # j /\ a[i] = a[j] THEN "Assignment.column_used_twice"
          ELSE IF Cardinality(used) # k THEN "Assignment.wrong_number_of_pairs"
          ELSE IF ~e.exact THEN "Objective.not_representable"
          ELSE IF e.obj # SumOver(used, LAMBDA i : C[i][a[i] + 1]) THEN "Objective.is_not_sum_of_chosen_entries"
          ELSE IF e.obj # OptAssign(C, e.minimize) THEN "Objective.not_optimal"
          ELSE ""
Step == /\ ok /\ l <= Len(T.events) /\ l' = l + 1 /\ UNCHANGED tid
        /\ LET w == Check(T.events[l]) IN IF w = "" THEN UNCHANGED <<ok, why>> ELSE ok' = FALSE /\ why' = w
Spec == Init /\ [][Step]_vars
Report == (l = Len(T.events) + 1 \/ ~ok) => PrintT(ToJson([tid |-> tid, ok |-> ok, why |-> why, l |-> l, div |-> {}]))
============================================================================
