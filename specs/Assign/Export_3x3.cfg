CONSTANT R = 3
CONSTANT Cn = 3
SPECIFICATION Spec
CHECK_DEADLOCK FALSE
