---------------------------- MODULE AssignDefs ----------------------------
(* Rectangular assignment: C is a sequence of rows (integers); exactly min(rows, cols) pairs,  *)
(* no row or column twice.  OptAssign by recursion over the smaller side (<= 7! leaves).        *)
EXTENDS Integers, FiniteSets, Sequences
NR(C) == Len(C)
NC(C) == IF Len(C) = 0 THEN 0 ELSE Len(C[1])
Big == 100000000
\* minimum of sum C[i][g(i)] over injections g of rows i..NR into the unused columns, when rows <= cols
RECURSIVE RowMin(_, _, _)
RowMin(C, i, used) == IF i > NR(C) THEN 0
                      ELSE LET vals == {C[i][j] + RowMin(C, i + 1, used \cup {j}) : j \in (1..NC(C)) \ used}
                           IN CHOOSE m \in vals : \A x \in vals : m <= x
Transpose(C) == [j \in 1..NC(C) |-> [i \in 1..NR(C) |-> C[i][j]]]
Neg(C) == [i \in 1..NR(C) |-> [j \in 1..NC(C) |-> -C[i][j]]]
\* beyond 7 columns: dynamic programming over column subsets (exact, n * 2^n instead of n!).  Level(C, k) maps every set S of k
\* columns to the cheapest way of giving rows 1..k pairwise different columns of S; rows <= cols
MinOf(vals) == CHOOSE m \in vals : \A x \in vals : m <= x
RECURSIVE Level(_, _)
Level(C, k) == IF k = 0 THEN [S \in {{}} |-> 0]
               ELSE LET prev == Level(C, k - 1)
                    IN [S \in {T \in SUBSET (1..NC(C)) : Cardinality(T) = k} |-> MinOf({prev[S \ {j}] + C[k][j] : j \in S})]
DpMin(C) == LET top == Level(C, NR(C)) IN MinOf({top[S] : S \in DOMAIN top})
RowsLeCols(C) == IF NR(C) <= NC(C) THEN C ELSE Transpose(C)
OptMin(C) == LET D == RowsLeCols(C) IN IF NC(D) <= 7 THEN RowMin(D, 1, {}) ELSE DpMin(D)
OptAssign(C, minimize) == IF minimize THEN OptMin(C) ELSE -OptMin(Neg(C))
\* twin: explicit enumeration of injections (small sizes only)
Injections(S, U) == {g \in [S -> U] : \A a, b \in S : a # b => g[a] # g[b]}
SumOver(S, f(_)) == LET RECURSIVE G(_)
                        G(T) == IF T = {} THEN 0 ELSE LET x == CHOOSE y \in T : TRUE IN f(x) + G(T \ {x})
                    IN G(S)
OptMinTwin(C) == LET vals == IF NR(C) <= NC(C)
                             THEN {SumOver(1..NR(C), LAMBDA i : C[i][g[i]]) : g \in Injections(1..NR(C), 1..NC(C))}
                             ELSE {SumOver(1..NC(C), LAMBDA j : C[g[j]][j]) : g \in Injections(1..NC(C), 1..NR(C))}
                 IN CHOOSE m \in vals : \A x \in vals : m <= x
===========================================================================
