CONSTANT N = 3
CONSTANT CSet <- CNeg
CONSTANT Bug = "delta_off_by_one"
SPECIFICATION Spec
INVARIANT DualFeasible
INVARIANT MatchedTight
INVARIANT IsMatching
INVARIANT Optimal
INVARIANT Progress
INVARIANT MaxTwin
CHECK_DEADLOCK FALSE
