CONSTANT NV = 2
CONSTANT MaxC = 4
SPECIFICATION Spec
INVARIANT Twin
INVARIANT RupSound
INVARIANT EntailedExact
CHECK_DEADLOCK FALSE
