---------------------------- MODULE CdclExport ----------------------------
(* Spec -> code: writes every formula of the design scope (the same space Cdcl.tla's Init    *)
(* ranges over, plus empty and tautological clauses) with its assumption sets to an ndjson   *)
(* file, with the oracle's expected satisfiability; the driver replays each into solve_sat.  *)
EXTENDS Dpll, Sequences, SequencesExt, TLC, Json, IOUtils
CONSTANTS NV, MaxC
Lits == {x \in (-NV)..NV : x # 0}
ClauseSpace == {c \in SUBSET Lits : Cardinality(c) <= 3}
Formulas == {cs \in SUBSET ClauseSpace : Cardinality(cs) \in 0..MaxC}      \* the empty formula included
AssumSets == {as \in SUBSET Lits : Cardinality(as) <= 2}         \* contradictory pairs {x, -x} included
Case(cs, as) == [clauses |-> SetToSeq({SetToSeq(c) : c \in cs}), assumptions |-> SetToSeq(as),
                 sat |-> Dpll({c \in cs : ~\E x \in c : -x \in c} \cup Units(as))]
ASSUME ndJsonSerialize(IOEnv.EXPORT_FILE, SetToSeq({Case(cs, as) : cs \in Formulas, as \in AssumSets}))
VARIABLE x
Init == x = 0
Next == UNCHANGED x
Spec == Init /\ [][Next]_x
============================================================================
