CONSTANT NV = 2
CONSTANT MaxC = 2
SPECIFICATION Spec
CHECK_DEADLOCK FALSE
