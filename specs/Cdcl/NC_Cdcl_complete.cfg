CONSTANT NV = 2
CONSTANT MaxClauses = 1
CONSTANT MaxLimit = 2
CONSTANT MaxRestarts = 1
CONSTANT MaxLearned = 2
CONSTANT MaxAssum = 0
CONSTANT Bug = "none"
SPECIFICATION Spec
INVARIANT C02complete
CHECK_DEADLOCK FALSE
