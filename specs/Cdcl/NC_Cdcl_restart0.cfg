CONSTANT NV = 2
CONSTANT MaxClauses = 3
CONSTANT MaxLimit = 2
CONSTANT MaxRestarts = 1
CONSTANT MaxLearned = 3
CONSTANT MaxAssum = 1
CONSTANT Bug = "restart_erases_level0"
SPECIFICATION Spec
INVARIANT TrailConsistent
INVARIANT C01
INVARIANT NoDup
INVARIANT C02unsat
INVARIANT C02sat
INVARIANT C02maxiter
INVARIANT LearnedEntailed
INVARIANT NoStuck
CHECK_DEADLOCK FALSE
