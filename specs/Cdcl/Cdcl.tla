---------------------------- MODULE Cdcl ----------------------------
(* Design spec of solve_sat as a transition system (DESIGN §5 C01/C02).                     *)
(* Actions are the named steps of the solver; guards are the *semantic* conditions that make *)
(* each step sound; heuristics (VSIDS, phase saving, Luby, LBD) are nondeterminism.          *)
(* The trail is an order-free set of [lit, lvl] (order only matters to the implementation).  *)
(* Input (clauses, assumptions, solution limit) is chosen in Init, so TLC covers every       *)
(* formula of the scope under every search order.                                            *)
(* Bug # "none" switches one guard off: negative controls showing which rule each guard      *)
(* protects (and that the properties are not vacuous).                                       *)
EXTENDS Integers, FiniteSets, Sequences, TLC
CONSTANTS NV, MaxClauses, MaxLimit, MaxRestarts, MaxLearned, MaxAssum, Bug
Vars == 1..NV
Lits == {l \in (-NV)..NV : l # 0}
ClauseSpace == {c \in SUBSET Lits : c # {} /\ \A l \in c : -l \notin c}
Assignments == {T \in SUBSET Lits : \A v \in Vars : (v \in T) # (-v \in T)}
Sat(T, cs) == \A c \in cs : c \cap T # {}
ModelsOf(cs, as) == {T \in Assignments : Sat(T, cs) /\ as \subseteq T}
Entails(cs, c) == \A T \in Assignments : Sat(T, cs) => c \cap T # {}

VARIABLES clauses, assum, limit, trail, dl, db, models, status, restarts, dup, phase
vars == <<clauses, assum, limit, trail, dl, db, models, status, restarts, dup, phase>>

TrailLits == {e.lit : e \in trail}
Assigned(l) == l \in TrailLits \/ -l \in TrailLits
IsFalse(l) == -l \in TrailLits
DbClauses == {d.cl : d \in db}
Blocking == {d.cl : d \in {e \in db : e.blocking}}
AllClauses == clauses \cup DbClauses
\* Implementation shape: unit input clauses and learned unit clauses are asserted once at level 0 and never
\* looked at again (they are in no watch list); only clauses of length >= 2 and blocking clauses propagate.
Active == {c \in AllClauses : Cardinality(c) >= 2} \cup Blocking
UnitLits == {l \in Lits : {l} \in clauses}
LevelOf(l) == (CHOOSE e \in trail : e.lit = -l).lvl
Prefix(k) == {e \in trail : e.lvl <= k}
Falsified(c) == \A l \in c : IsFalse(l)

Init == /\ clauses \in {cs \in SUBSET ClauseSpace : Cardinality(cs) \in 1..MaxClauses}
        /\ assum \in {as \in SUBSET Lits : Cardinality(as) <= MaxAssum /\ \A l \in as : -l \notin as}
        /\ limit \in 1..MaxLimit
        /\ trail = {} /\ dl = 0 /\ db = {} /\ models = {} /\ status = "run" /\ restarts = 0 /\ dup = FALSE
        /\ phase = "pure"

Running == status = "run"
Keep == UNCHANGED <<clauses, assum, limit>>
Searching == Running /\ phase = "search"

AssertAssumption ==
  /\ Searching /\ dl = 0
  /\ \E l \in assum : ~Assigned(l) /\ trail' = trail \cup {[lit |-> l, lvl |-> 0]}
  /\ Keep /\ UNCHANGED <<dl, db, models, status, restarts, dup, phase>>

\* pure literal: its negation occurs in no input clause, and it does not contradict an assumption
AssertPure ==
  /\ Running /\ phase = "pure"
  /\ \E l \in Lits : /\ ~Assigned(l)
                     /\ (Bug = "pure_ignores_assumption" \/ -l \notin assum)
                     /\ \A c \in clauses : -l \notin c
                     /\ \E c \in clauses : l \in c
                     /\ trail' = trail \cup {[lit |-> l, lvl |-> 0]}
  /\ Keep /\ UNCHANGED <<dl, db, models, status, restarts, dup, phase>>
EndPure == /\ Running /\ phase = "pure" /\ phase' = "units"
           /\ Keep /\ UNCHANGED <<trail, dl, db, models, status, restarts, dup>>

\* unit input clauses: asserted once; a unit whose negation is already on the trail means UNSAT
AssertUnit ==
  /\ Running /\ phase = "units"
  /\ \E l \in UnitLits :
        \/ /\ ~Assigned(l) /\ trail' = trail \cup {[lit |-> l, lvl |-> 0]}
           /\ Keep /\ UNCHANGED <<dl, db, models, status, restarts, dup, phase>>
        \/ /\ IsFalse(l) /\ status' = "unsat"
           /\ Keep /\ UNCHANGED <<trail, dl, db, models, restarts, dup, phase>>
EndUnits == /\ Running /\ phase = "units" /\ \A l \in UnitLits : l \in TrailLits
            /\ phase' = "search"
            /\ Keep /\ UNCHANGED <<trail, dl, db, models, status, restarts, dup>>

Imply ==
  /\ Searching
  /\ \E c \in Active : \E l \in c :
       /\ ~Assigned(l) /\ \A k \in c \ {l} : IsFalse(k)
       /\ trail' = trail \cup {[lit |-> l, lvl |-> dl]}
  /\ Keep /\ UNCHANGED <<dl, db, models, status, restarts, dup, phase>>

Finish(st) == status' = st /\ Keep /\ UNCHANGED <<trail, dl, db, models, restarts, dup, phase>>
Verdict == IF models = {} THEN "unsat" ELSE "sat"
AssumptionClash == Searching /\ dl = 0 /\ (\E l \in assum : IsFalse(l)) /\ Finish(Verdict)
Conflict0 == Searching /\ dl = 0 /\ (\E c \in Active : Falsified(c)) /\ Finish(Verdict)

\* conflict at dl > 0: learn an entailed asserting clause and backjump, keeping every level <= bt
Learn ==
  /\ Searching /\ dl > 0 /\ Cardinality(db) < MaxLearned
  /\ \E c \in Active : Falsified(c)
  /\ \E L \in ClauseSpace :
       /\ Falsified(L)
       /\ (Bug = "learn_unsound" \/ Entails(clauses \cup Blocking, L))
       /\ Cardinality({l \in L : LevelOf(l) = dl}) = 1
       /\ LET uip == CHOOSE l \in L : LevelOf(l) = dl
              others == L \ {uip}
              bt == IF others = {} THEN 0
                    ELSE CHOOSE m \in {LevelOf(l) : l \in others} : \A l \in others : LevelOf(l) <= m
              kept == IF Bug = "backjump_erases_target_level" THEN Prefix(bt - 1) ELSE Prefix(bt)
          IN /\ trail' = kept \cup {[lit |-> uip, lvl |-> bt]}
             /\ dl' = bt
       /\ db' = db \cup {[cl |-> L, blocking |-> FALSE]}
  /\ Keep /\ UNCHANGED <<models, status, restarts, dup, phase>>

\* conflict budget exhausted (the learned-clause bound plays the role of max_conflicts)
GiveUpConflicts ==
  /\ Searching /\ dl > 0 /\ Cardinality(db) >= MaxLearned
  /\ \E c \in Active : Falsified(c)
  /\ Finish("maxiter")

Restart ==
  /\ Searching /\ dl > 0
  /\ IF restarts >= MaxRestarts THEN Finish("maxiter")
     ELSE /\ trail' = (IF Bug = "restart_erases_level0" THEN {} ELSE Prefix(0)) /\ dl' = 0 /\ restarts' = restarts + 1
          /\ \E keep \in SUBSET {d \in db : ~d.blocking} :
                db' = (IF Bug = "reduce_drops_blocking" THEN {} ELSE {d \in db : d.blocking}) \cup keep
          /\ Keep /\ UNCHANGED <<models, status, dup, phase>>

Decide ==
  /\ Searching
  /\ ~\E c \in Active : Falsified(c)
  /\ \A l \in assum : dl = 0 => l \in TrailLits
  /\ \E l \in Lits : ~Assigned(l) /\ trail' = trail \cup {[lit |-> l, lvl |-> dl + 1]}
  /\ dl' = dl + 1
  /\ Keep /\ UNCHANGED <<db, models, status, restarts, dup, phase>>

Total == \A v \in Vars : Assigned(v)
RecordModel ==
  /\ Searching /\ Total /\ \A c \in Active : ~Falsified(c)
  /\ \A l \in assum : dl = 0 => l \in TrailLits      \* propagate() at level 0 asserts the assumptions first
  /\ dup' = (dup \/ TrailLits \in models)
  /\ models' = models \cup {TrailLits}
  /\ IF Cardinality(models') >= limit
       THEN status' = "sat" /\ UNCHANGED <<trail, dl, db>>
       ELSE /\ status' = status
            /\ db' = db \cup {[cl |-> {-l : l \in TrailLits}, blocking |-> TRUE]}
            /\ trail' = Prefix(0) /\ dl' = 0
  /\ Keep /\ UNCHANGED <<restarts, phase>>

Next == \/ AssertAssumption \/ AssertPure \/ EndPure \/ AssertUnit \/ EndUnits \/ Imply \/ AssumptionClash \/ Conflict0
        \/ Learn \/ GiveUpConflicts \/ Restart \/ Decide \/ RecordModel
Spec == Init /\ [][Next]_vars
FairSpec == Spec /\ WF_vars(Next)

\* ---------------- properties
TrailConsistent == \A e \in trail : ~\E f \in trail : f.lit = -e.lit
C01 == \A m \in models : Sat(m, clauses) /\ assum \subseteq m
NoDup == ~dup
C02unsat == status = "unsat" => ModelsOf(clauses, assum) = {}
C02sat == status = "sat" => models # {}
C02maxiter == status = "maxiter" => (Cardinality(db) >= MaxLearned \/ restarts >= MaxRestarts)
LearnedEntailed == \A d \in db : ~d.blocking => Entails(clauses \cup Blocking, d.cl)
\* NOT a property of solve_sat (and not claimed by C01/C02): enumeration is incomplete because pure literals are
\* fixed before the search; NC_Cdcl_complete.cfg has TLC exhibit the witness (documents the design consequence).
C02complete == (status \in {"sat", "unsat"} /\ Cardinality(models) < limit) => models = ModelsOf(clauses, assum)
\* progress: some step is always possible until a verdict is reached (no stuck state)
NoStuck == Running => ENABLED Next
Terminates == <>(status # "run")

\* ---------------- Luby schedule (specified as a function, used by the trace spec)
RECURSIVE Pow2(_)
Pow2(k) == IF k = 0 THEN 1 ELSE 2 * Pow2(k - 1)
RECURSIVE Luby(_)
Luby(i) == LET k == CHOOSE j \in 1..31 : Pow2(j) - 1 >= i /\ \A h \in 1..(j - 1) : Pow2(h) - 1 < i
           IN IF i = Pow2(k) - 1 THEN Pow2(k - 1) ELSE Luby(i - Pow2(k - 1) + 1)
ASSUME [i \in 1..15 |-> Luby(i)] = <<1, 1, 2, 1, 1, 2, 4, 1, 1, 2, 1, 1, 2, 4, 8>>
=====================================================================
