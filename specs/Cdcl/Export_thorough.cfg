CONSTANT NV = 2
CONSTANT MaxC = 3
SPECIFICATION Spec
CHECK_DEADLOCK FALSE
