---------------------------- MODULE CdclTrace ----------------------------
(* Batch trace validation of recorded solve_sat executions (C01, C02).                       *)
(* Verdict-bearing clauses (DESIGN §4.1):                                                    *)
(*   (R) at return: every returned assignment satisfies every input clause and assumption,   *)
(*       solutions pairwise distinct; INFEASIBLE only if Dpll finds no model; OPTIMAL has a  *)
(*       model; MAX_ITER only with an exhausted budget;                                      *)
(*   (S) learn: every learned non-blocking clause is entailed by input + blocking clauses;   *)
(*   (T) no return; any exception.                                                           *)
(* Everything else (reason clause unit, backjump keeps levels <= target, Luby schedule,      *)
(* reduce_db keeps blocking clauses, assumption/pure interplay) is diagnostic (`div`).       *)
EXTENDS Dpll, Sequences, TLC, Json, IOUtils
Batch == JsonDeserialize(IOEnv.TRACE_FILE)
VARIABLES tid, l, trail, db, lemmas, nblock, seen, ok, why, why2, div
vars == <<tid, l, trail, db, lemmas, nblock, seen, ok, why, why2, div>>
T == Batch[tid]
Ev == T.events
ToSet(s) == {s[i] : i \in 1..Len(s)}
InCnf == {ToSet(T.clauses[i]) : i \in 1..Len(T.clauses)}
Assum == ToSet(T.assumptions)
NIn == Len(T.clauses)

RECURSIVE Pow2(_)
Pow2(k) == IF k = 0 THEN 1 ELSE 2 * Pow2(k - 1)
RECURSIVE Luby(_)
Luby(i) == LET k == CHOOSE j \in 1..31 : Pow2(j) - 1 >= i /\ \A h \in 1..(j - 1) : Pow2(h) - 1 < i
           IN IF i = Pow2(k) - 1 THEN Pow2(k - 1) ELSE Luby(i - Pow2(k - 1) + 1)

TrailLits == {trail[i].lit : i \in 1..Len(trail)}
IsFalse(x) == -x \in TrailLits
ClauseAt(idx) == IF idx < NIn THEN ToSet(T.clauses[idx + 1])
                 ELSE IF idx - NIn + 1 <= Len(db) THEN ToSet(db[idx - NIn + 1].cl) ELSE {}
BlockCnf == {ToSet(db[i].cl) : i \in {j \in 1..Len(db) : db[j].blocking}}
Prefix(k) == SelectSeq(trail, LAMBDA e : e.lvl <= k)
LitsOf(s) == [i \in 1..Len(s) |-> s[i].lit]

Init == /\ tid \in 1..Len(Batch) /\ l = 1 /\ trail = <<>> /\ db = <<>> /\ lemmas = {} /\ nblock = 0
        /\ seen = [learn |-> 0, maxiter |-> FALSE, budget_ok |-> TRUE] /\ ok = TRUE /\ why = "" /\ why2 = "" /\ div = {}

Fail(w) == ok' = FALSE /\ why' = w /\ why2' = w       \* step-level clauses (Learn, NoReturn, Raise) belong to C02
Pass == UNCHANGED <<ok, why, why2>>
Diag(cond, name) == div' = IF cond THEN div ELSE div \cup {name}

\* ---- (R) return checks
BadModel(m) ==     \* "" or the name of the broken clause
  IF ~Consistent(m) THEN "Model.assigns_both_polarities"
  ELSE IF ~SatBy(m, InCnf) THEN "Model.falsifies_input_clause"
  ELSE IF ~(Assum \subseteq m) THEN "Model.contradicts_assumption"
  ELSE ""
\* two independent verdicts at return: <<model clauses (C01), verdict clauses (C02)>>
ReturnCheck(e) ==
  LET sols == [i \in 1..Len(e.sols) |-> ToSet(e.sols[i])]
      bad == {i \in 1..Len(sols) : BadModel(sols[i]) # ""}
      hasmodel == Len(sols) > 0
      \* a planted model shipped with the input (checked here, not trusted) decides satisfiability without the oracle
      planted == ToSet(T.planted)
      unsat == IF T.planted # <<>> /\ Consistent(planted) /\ SatBy(planted, InCnf) /\ Assum \subseteq planted
               THEN FALSE ELSE ~Dpll(InCnf \cup Units(Assum))
      w1 == IF bad # {} THEN BadModel(sols[CHOOSE i \in bad : \A j \in bad : i <= j])
            ELSE IF e.has_first /\ BadModel(ToSet(e.first)) # "" THEN BadModel(ToSet(e.first))
            ELSE IF Cardinality({sols[i] : i \in 1..Len(sols)}) # Len(sols) THEN "Model.duplicate"
            ELSE ""
      w2 == IF e.status = "INFEASIBLE" THEN
                 (IF hasmodel \/ e.has_first THEN "ReturnUnsat.with_a_model"
                  ELSE IF ~unsat THEN "ReturnUnsat.formula_is_satisfiable" ELSE "")
            ELSE IF e.status = "OPTIMAL" THEN
                 (IF ~e.has_first THEN "ReturnSat.no_model"
                  ELSE IF unsat THEN "ReturnSat.formula_is_unsatisfiable" ELSE "")
            ELSE IF e.status = "MAX_ITER" THEN
                 (IF (hasmodel \/ e.has_first) /\ unsat THEN "ReturnMaxIter.model_for_unsatisfiable_formula"
                  ELSE IF seen.maxiter /\ ~seen.budget_ok THEN "ReturnMaxIter.budget_not_exhausted" ELSE "")
            ELSE "Return.unexpected_status"
      \* (T) work bounded by the budgets: the conflict budget is tested after each decision, and between two decisions at most
      \* one conflict per decision level can occur, so the number of learned clauses cannot exceed max_conflicts + #variables + 2
      nv == Cardinality({Abs(x) : x \in UNION InCnf} \cup {Abs(x) : x \in Assum})
      w3 == IF ~T.truncated /\ seen.learn > T.max_conflicts + nv + 2 THEN "Termination.conflict_budget_ignored" ELSE ""
  IN <<w1, IF w2 # "" THEN w2 ELSE w3>>

Step ==
  /\ ok /\ l <= Len(Ev) /\ l' = l + 1 /\ tid' = tid
  /\ LET e == Ev[l] IN
     CASE e.e = "assign" ->
            /\ trail' = Append(trail, [lit |-> e.lit, lvl |-> e.lvl])
            /\ Diag(/\ e.lit \notin TrailLits /\ -e.lit \notin TrailLits
                    /\ (e.reason >= 0 => LET c == ClauseAt(e.reason) IN e.lit \in c /\ \A k \in c \ {e.lit} : IsFalse(k)),
                    IF e.reason >= 0 THEN "Imply.reason_not_unit" ELSE "Assign.already_assigned")
            /\ UNCHANGED <<db, lemmas, nblock, seen, ok, why, why2>>
       [] e.e = "backtrack" ->
            /\ Diag(LitsOf(Prefix(e.to)) = e.trail, "Backjump.trail_not_prefix_of_levels_le_target")
            /\ trail' = [i \in 1..Len(e.trail) |->
                           IF \E j \in 1..Len(trail) : trail[j].lit = e.trail[i]
                           THEN trail[CHOOSE j \in 1..Len(trail) : trail[j].lit = e.trail[i]]
                           ELSE [lit |-> e.trail[i], lvl |-> 0]]
            /\ UNCHANGED <<db, lemmas, nblock, seen, ok, why, why2>>
       [] e.e = "learn" ->
            IF ~e.has_clause THEN UNCHANGED <<trail, db, lemmas, nblock, seen, ok, why, why2, div>>
            ELSE LET c == ToSet(e.clause) IN
                 /\ db' = Append(db, [cl |-> e.clause, blocking |-> FALSE])
                 /\ lemmas' = lemmas \cup {c}
                 /\ seen' = [seen EXCEPT !.learn = @ + 1]
                 /\ IF Rup(InCnf \cup BlockCnf \cup lemmas, c) \/ ~Dpll(InCnf \cup BlockCnf \cup {{-x} : x \in c})
                      THEN Pass ELSE Fail("Learn.not_entailed")
                 /\ Diag(\A x \in c : IsFalse(x), "Learn.clause_not_falsified_by_trail")
                 /\ UNCHANGED <<trail, nblock>>
       [] e.e = "block" ->
            /\ db' = Append(db, [cl |-> e.clause, blocking |-> TRUE])
            /\ nblock' = nblock + 1
            /\ UNCHANGED <<trail, lemmas, seen, ok, why, why2, div>>
       [] e.e = "reduce_db" ->
            LET kept == {ToSet(e.kept[i]) : i \in 1..Len(e.kept)} IN
            /\ Diag(BlockCnf \subseteq kept, "ReduceDb.dropped_blocking_clause")
            /\ db' = [i \in 1..Len(e.kept) |-> [cl |-> e.kept[i], blocking |-> ToSet(e.kept[i]) \in BlockCnf]]
            /\ UNCHANGED <<trail, lemmas, nblock, seen, ok, why, why2>>
       [] e.e = "restart_scheduled" ->
            /\ Diag(l > 1 /\ Ev[l - 1].e = "restart" /\ e.next = T.luby_factor * Luby(Ev[l - 1].luby_idx), "Restart.not_luby_schedule")
            /\ UNCHANGED <<trail, db, lemmas, nblock, seen, ok, why, why2>>
       [] e.e = "max_iter" ->
            /\ seen' = [seen EXCEPT !.maxiter = TRUE,
                                    !.budget_ok = \/ (e.budget = "conflicts" /\ e.conflicts >= T.max_conflicts)
                                                  \/ (e.budget = "restarts" /\ e.restarts >= T.max_restarts)]
            /\ UNCHANGED <<trail, db, lemmas, nblock, ok, why, why2, div>>
       [] e.e = "model" ->
            /\ Diag(ToSet(e.lits) = TrailLits, "Model.differs_from_trail")
            /\ UNCHANGED <<trail, db, lemmas, nblock, seen, ok, why, why2>>
       [] e.e = "return" ->
            /\ LET w == ReturnCheck(e) IN
               IF w = <<"", "">> THEN Pass /\ UNCHANGED why2
               ELSE ok' = FALSE /\ why' = (IF w[1] # "" THEN w[1] ELSE w[2]) /\ why2' = w[2]
            /\ UNCHANGED <<trail, db, lemmas, nblock, seen, div>>
       [] e.e = "noreturn" -> Fail("NoReturn") /\ UNCHANGED <<trail, db, lemmas, nblock, seen, div>>
       [] e.e = "raise" -> Fail("Raise." \o e.what) /\ UNCHANGED <<trail, db, lemmas, nblock, seen, div>>
       [] OTHER -> UNCHANGED <<trail, db, lemmas, nblock, seen, ok, why, why2, div>>
\* witness predicates: named facts about the input that identify known findings (DESIGN §4.3)
Wit == IF InCnf = {{}} THEN {"OnlyEmptyClauses"} ELSE {}
Spec == Init /\ [][Step]_vars
Report == (l = Len(Ev) + 1 \/ ~ok) =>
            PrintT(ToJson([tid |-> tid, ok |-> ok, why |-> why, why2 |-> why2, l |-> l, div |-> div, nlearn |-> seen.learn, nblock |-> nblock,
                           wit |-> Wit]))
===========================================================================
