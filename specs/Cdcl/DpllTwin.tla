---------------------------- MODULE DpllTwin ----------------------------
(* Oracle twin check: Dpll = truth table, Rup => Entailed, on every CNF over NV variables  *)
(* with at most MaxC clauses (clauses may be tautological or empty).                        *)
EXTENDS Dpll, TLC
CONSTANTS NV, MaxC
Lits == {x \in (-NV)..NV : x # 0}
ClauseSpace == SUBSET Lits
VARIABLE cnf
Init == cnf \in {cs \in SUBSET ClauseSpace : Cardinality(cs) <= MaxC}
Next == UNCHANGED cnf
Spec == Init /\ [][Next]_cnf
Taut(c) == \E x \in c : -x \in c
Clean == {c \in cnf : ~Taut(c)}      \* Dpll's Simplify assumes non-tautological clauses
Twin == Dpll(Clean) = TTSat(Clean)
RupSound == \A c \in ClauseSpace : (~Taut(c) /\ Rup(Clean, c)) => ~Dpll(Clean \cup {{-x} : x \in c})
EntailedExact == \A c \in {d \in ClauseSpace : ~Taut(d)} :
                    Entailed(Clean, c) = (\A T \in TotalAsgs(1..NV) : SatBy(T, Clean) => c \cap T # {})
=========================================================================
