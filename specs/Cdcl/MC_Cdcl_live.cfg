CONSTANT NV = 2
CONSTANT MaxClauses = 2
CONSTANT MaxLimit = 2
CONSTANT MaxRestarts = 1
CONSTANT MaxLearned = 2
CONSTANT MaxAssum = 1
CONSTANT Bug = "none"
SPECIFICATION FairSpec
PROPERTY Terminates
CHECK_DEADLOCK FALSE
