CONSTANT NV = 3
CONSTANT MaxClauses = 2
CONSTANT MaxLimit = 2
CONSTANT MaxRestarts = 1
CONSTANT MaxLearned = 2
CONSTANT MaxAssum = 1
CONSTANT Bug = "none"
SPECIFICATION Spec
INVARIANT TrailConsistent
INVARIANT C01
INVARIANT NoDup
INVARIANT C02unsat
INVARIANT C02sat
INVARIANT C02maxiter
INVARIANT LearnedEntailed
INVARIANT NoStuck
CHECK_DEADLOCK FALSE
