---------------------------- MODULE C18Trace ----------------------------
(* Batch validation for C18.                                                                   *)
(*  kind "jobshop": jobs (sequence of sequences of <<machine, duration>>), events = results     *)
(*       (schedule as sequence of <<job, op, start, end>>, objective) under several rules.      *)
(*  kind "vrp": customers on a line with integer data (exact arrival times); events are the     *)
(*       applications of the exported destroy / repair operators (before / after states), both  *)
(*       driver-chosen sequences and every application inside real solve_vrptw runs, followed   *)
(*       by the returned state with its reported objective.                                     *)
EXTENDS Integers, FiniteSets, Sequences, TLC, Json, IOUtils
Batch == JsonDeserialize(IOEnv.TRACE_FILE)
VARIABLES tid, l, ok, why
vars == <<tid, l, ok, why>>
T == Batch[tid]
ToSet(s) == {s[i] : i \in 1..Len(s)}
Init == tid \in 1..Len(Batch) /\ l = 1 /\ ok = TRUE /\ why = ""
Max2(a, b) == IF a > b THEN a ELSE b
SumSeq(f(_), k) == LET RECURSIVE G(_)
                       G(i) == IF i > k THEN 0 ELSE f(i) + G(i + 1)
                   IN G(1)
\* ------------------------------------------------------------------ job shop
JsCheck(e) ==
  LET J == T.jobs
      ops == {<<j, o>> : j \in 1..Len(J), o \in 1..10} \cap {<<j, o>> \in (1..Len(J)) \X (1..10) : o <= Len(J[j])}
      S == e.schedule                       \* <<job, op, start, end>>, 0-based job / op
      key(i) == <<S[i][1] + 1, S[i][2] + 1>>
      idx(p) == CHOOSE i \in 1..Len(S) : key(i) = p
  IN IF e.status \notin {"FEASIBLE", "OPTIMAL"} THEN "Return.unexpected_status"
     ELSE IF {key(i) : i \in 1..Len(S)} # ops \/ Len(S) # Cardinality(ops) THEN "Schedule.not_exactly_one_entry_per_operation"
     ELSE IF \E p \in ops : S[idx(p)][4] - S[idx(p)][3] # J[p[1]][p[2]][2] \/ S[idx(p)][3] < 0 THEN "Schedule.end_minus_start_is_not_duration"
     ELSE IF \E p \in ops : p[2] > 1 /\ S[idx(<<p[1], p[2] - 1>>)][4] > S[idx(p)][3] THEN "Schedule.job_order_violated"
     ELSE IF \E p, q \in ops : p # q /\ J[p[1]][p[2]][1] = J[q[1]][q[2]][1]
                               /\ S[idx(p)][3] < S[idx(q)][4] /\ S[idx(q)][3] < S[idx(p)][4] THEN "Schedule.machine_overlap"
     ELSE IF ~e.exact \/ e.obj # (IF Len(S) = 0 THEN 0 ELSE CHOOSE m \in {S[i][4] : i \in 1..Len(S)} : \A i \in 1..Len(S) : S[i][4] <= m) THEN "Schedule.objective_is_not_latest_end"
     ELSE ""
\* ------------------------------------------------------------------ VRP
NC == Len(T.cust)                      \* customers 1..NC ; depot = 0 ; T.dist[i+1][j+1]
Cust(c) == T.cust[c]
D(i, j) == T.dist[i + 1][j + 1]
Occ(r, c) == Cardinality({i \in 1..Len(r) : r[i] = c})
OnRoutes(st, c) == {v \in 1..Len(st.routes) : Occ(st.routes[v], c) > 0}
I1(st) == \A c \in 1..NC : (c \in ToSet(st.unassigned)) # (OnRoutes(st, c) # {})
I2(st) == \A c \in 1..NC : \A v \in 1..Len(st.routes) : Occ(st.routes[v], c) <= 1
I3(st) == \A c \in 1..NC : Cust(c).req = 1 => Cardinality(OnRoutes(st, c)) <= 1
I5(st) == /\ \A v \in 1..Len(st.routes) : \A i \in 1..Len(st.routes[v]) : st.routes[v][i] \in 1..NC
          /\ ToSet(st.unassigned) \subseteq 1..NC
RECURSIVE Arr(_, _, _)
Arr(r, i, t) == IF i > Len(r) THEN <<>>
                ELSE LET a == Max2(t, Cust(r[i]).tws)
                         nxt == a + Cust(r[i]).svc + (IF i < Len(r) THEN D(r[i], r[i + 1]) ELSE 0)
                     IN <<a>> \o Arr(r, i + 1, nxt)
Arrival(r) == IF Len(r) = 0 THEN <<>> ELSE Arr(r, 1, D(0, r[1]))
I4(st) == \A v \in 1..Len(st.routes) : st.arrival[v] = Arrival(st.routes[v])
Removed(b, a) == ToSet(a.unassigned) \ ToSet(b.unassigned)
Filter(r, R) == SelectSeq(r, LAMBDA c : c \notin R)
IsRemoval(b, a) == LET R == Removed(b, a) IN
    /\ ToSet(b.unassigned) \subseteq ToSet(a.unassigned)
    /\ \A v \in 1..Len(b.routes) : a.routes[v] = Filter(b.routes[v], R)
IsInsertion(b, a) ==
    /\ ToSet(a.unassigned) \subseteq ToSet(b.unassigned)
    /\ \A v \in 1..Len(b.routes) : Filter(a.routes[v], ToSet(b.unassigned) \ ToSet(a.unassigned)) = b.routes[v]
StateBad(a) ==
  IF ~I5(a) THEN "I5_depot_or_unknown_customer"
  ELSE IF ~I1(a) THEN (IF \E c \in 1..NC : c \notin ToSet(a.unassigned) /\ OnRoutes(a, c) = {} THEN "I1_customer_lost" ELSE "I1_customer_both_unassigned_and_on_route")
  ELSE IF ~I2(a) THEN "I2_twice_on_one_route"
  ELSE IF ~I3(a) THEN "I3_single_vehicle_customer_on_many_routes"
  ELSE IF ~a.exact THEN "I4_arrival_time_not_an_integer"
  ELSE IF ~I4(a) THEN "I4_stale_or_wrong_arrival_time"
  ELSE ""
OpCheck(e) ==
  LET b == e.before  a == e.after IN
  IF StateBad(b) # "" THEN ""           \* operator started from a broken state: not its fault (the breaking step is reported)
  ELSE IF StateBad(a) # "" THEN e.op \o "." \o StateBad(a)
  ELSE IF e.role = "destroy" /\ ~IsRemoval(b, a) THEN e.op \o ".not_a_removal"
  ELSE IF e.role = "repair" /\ ~IsInsertion(b, a) THEN e.op \o ".not_an_insertion"
  ELSE ""
\* objective of a state: distance + 1000 tw + 1000 capacity + 10000 sync + 100000 unassigned (default weights)
RouteDist(r) == IF Len(r) = 0 THEN 0 ELSE D(0, r[1]) + SumSeq(LAMBDA i : D(r[i], r[i + 1]), Len(r) - 1) + D(r[Len(r)], 0)
TwViol(st) == SumSeq(LAMBDA v : SumSeq(LAMBDA i : Max2(0, st.arrival[v][i] - Cust(st.routes[v][i]).twe), Len(st.routes[v])), Len(st.routes))
CapViol(st) == SumSeq(LAMBDA v : Max2(0, SumSeq(LAMBDA i : Cust(st.routes[v][i]).dem, Len(st.routes[v])) - T.cap[v]), Len(st.routes))
Pos(r, c) == CHOOSE i \in 1..Len(r) : r[i] = c
SyncViol(st) == SumSeq(LAMBDA c : IF Cust(c).req <= 1 THEN 0
                          ELSE LET vs == OnRoutes(st, c)
                                   times == {st.arrival[v][Pos(st.routes[v], c)] : v \in vs}
                               IN IF Cardinality(vs) < Cust(c).req THEN (Cust(c).req - Cardinality(vs)) * 1000
                                  ELSE IF Cardinality(vs) > 1 THEN (CHOOSE m \in times : \A x \in times : x <= m) - (CHOOSE m \in times : \A x \in times : m <= x)
                                  ELSE 0, NC)
\* the caller's weights <<distance, vehicle, time-window, capacity, sync>> (the defaults when the trace carries none)
W == IF "w" \in DOMAIN T THEN T.w ELSE <<1, 0, 1000, 1000, 10000>>
Used(st) == Cardinality({v \in 1..Len(st.routes) : Len(st.routes[v]) > 0})
Objective(st) == W[1] * SumSeq(LAMBDA v : RouteDist(st.routes[v]), Len(st.routes)) + W[2] * Used(st) + W[3] * TwViol(st) + W[4] * CapViol(st)
                 + W[5] * SyncViol(st) + 100000 * Cardinality(ToSet(st.unassigned))
ResultCheck(e) ==
  IF e.status \notin {"FEASIBLE", "OPTIMAL", "MAX_ITER"} THEN "Return.unexpected_status"
  ELSE IF StateBad(e.state) # "" THEN "Result." \o StateBad(e.state)
  ELSE IF ~e.exact \/ e.obj # Objective(e.state) THEN "Result.objective_is_not_the_documented_weighted_sum"
  ELSE ""
Check(e) == IF e.e = "raise" THEN "Raise." \o e.what
            ELSE IF e.e = "noreturn" THEN "NoReturn"
            ELSE IF T.kind = "jobshop" THEN JsCheck(e)
            ELSE IF e.e = "op" THEN OpCheck(e) ELSE ResultCheck(e)
Step == /\ ok /\ l <= Len(T.events) /\ l' = l + 1 /\ UNCHANGED tid
        /\ LET w == Check(T.events[l]) IN IF w = "" THEN UNCHANGED <<ok, why>> ELSE ok' = FALSE /\ why' = w
Spec == Init /\ [][Step]_vars
Report == (l = Len(T.events) + 1 \/ ~ok) => PrintT(ToJson([tid |-> tid, ok |-> ok, why |-> why, l |-> l, div |-> {}]))
=========================================================================
