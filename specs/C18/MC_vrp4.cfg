CONSTANT NC = 4
CONSTANT NV = 2
CONSTANT Bug = "none"
SPECIFICATION Spec
INVARIANT I1
INVARIANT I2
INVARIANT I3
CHECK_DEADLOCK FALSE
