CONSTANT NC = 3
CONSTANT NV = 2
CONSTANT Bug = "unplaced_sync_customer_dropped"
SPECIFICATION Spec
INVARIANT I1
INVARIANT I2
INVARIANT I3
CHECK_DEADLOCK FALSE
