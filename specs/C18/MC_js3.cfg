CONSTANT NJ = 3
CONSTANT NO = 2
CONSTANT NM = 2
CONSTANT DMax = 1
CONSTANT Bug = "none"
SPECIFICATION Spec
INVARIANT Valid
CHECK_DEADLOCK FALSE
