---------------------------- MODULE Vrp ----------------------------
(* Operator algebra of the VRP destroy / repair operators on the bookkeeping state             *)
(* (routes, unassigned), for NC customers (customer 1 needs two vehicles, the others one) and   *)
(* NV vehicles, from the initial all-unassigned state:                                          *)
(*   RemoveSet(R)   random/worst/related/sync removal: delete R from every route, add to        *)
(*                  unassigned                                                                  *)
(*   RouteRemoval(v): empty route v; its customers leave every other route too                  *)
(*   InsertOne(c, v, pos): greedy / regret insertion of an unassigned customer on one route     *)
(*   InsertSync(c, V): sync-aware insertion of a multi-vehicle customer on each vehicle of V;   *)
(*                  customers it cannot place stay unassigned                                   *)
(* Invariants = the bookkeeping part of C18: I1 unassigned xor on >= 1 route; I2 no customer    *)
(* twice on a route; I3 a single-vehicle customer on at most one route.                         *)
EXTENDS Integers, FiniteSets, Sequences, TLC
CONSTANTS NC, NV, Bug
Cust == 1..NC
Veh == 1..NV
Req(c) == IF c = 1 THEN 2 ELSE 1
VARIABLES routes, unassigned
vars == <<routes, unassigned>>
Init == routes = [v \in Veh |-> <<>>] /\ unassigned = Cust
OnRoute(c, v) == \E i \in 1..Len(routes[v]) : routes[v][i] = c
Assigned == {c \in Cust : \E v \in Veh : OnRoute(c, v)}
Filter(r, R) == SelectSeq(r, LAMBDA c : c \notin R)
InsertAt(r, pos, c) == SubSeq(r, 1, pos - 1) \o <<c>> \o SubSeq(r, pos, Len(r))
RemoveSet == \E R \in (SUBSET Assigned) \ {{}} :
               /\ routes' = [v \in Veh |-> Filter(routes[v], R)] /\ unassigned' = unassigned \cup R
RouteRemoval == \E v \in Veh : Len(routes[v]) > 0 /\
               LET R == {routes[v][i] : i \in 1..Len(routes[v])} IN
               /\ routes' = [u \in Veh |-> IF u = v THEN <<>> ELSE IF Bug = "route_removal_keeps_other_routes" THEN routes[u] ELSE Filter(routes[u], R)]
               /\ unassigned' = unassigned \cup R
InsertOne == \E c \in unassigned, v \in Veh : \E pos \in 1..(Len(routes[v]) + 1) :
               /\ routes' = [routes EXCEPT ![v] = InsertAt(@, pos, c)] /\ unassigned' = unassigned \ {c}
InsertSync == \E c \in {x \in unassigned : Req(x) > 1} : \E V \in {W \in SUBSET Veh : Cardinality(W) = Req(c)} :
               /\ routes' = [v \in Veh |-> IF v \in V THEN Append(routes[v], c) ELSE routes[v]]
               /\ unassigned' = unassigned \ {c}
\* sync-aware insertion that cannot place its multi-vehicle customer: nothing may be lost
SyncFails == /\ \E c \in unassigned : Req(c) > 1
             /\ unassigned' = IF Bug = "unplaced_sync_customer_dropped" THEN {x \in unassigned : Req(x) = 1} ELSE unassigned
             /\ UNCHANGED routes
Next == RemoveSet \/ RouteRemoval \/ InsertOne \/ InsertSync \/ SyncFails
Spec == Init /\ [][Next]_vars
I1 == \A c \in Cust : (c \in unassigned) # (c \in Assigned)
I2 == \A v \in Veh : \A i, j \in 1..Len(routes[v]) : i # j => routes[v][i] # routes[v][j]
I3 == \A c \in Cust : Req(c) = 1 => Cardinality({v \in Veh : OnRoute(c, v)}) <= 1
====================================================================
