CONSTANT NJ = 2
CONSTANT NO = 2
CONSTANT NM = 2
CONSTANT DMax = 2
CONSTANT Bug = "none"
SPECIFICATION Spec
INVARIANT Valid
CHECK_DEADLOCK FALSE
