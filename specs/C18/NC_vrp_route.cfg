CONSTANT NC = 3
CONSTANT NV = 2
CONSTANT Bug = "route_removal_keeps_other_routes"
SPECIFICATION Spec
INVARIANT I1
INVARIANT I2
INVARIANT I3
CHECK_DEADLOCK FALSE
