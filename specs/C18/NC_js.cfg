CONSTANT NJ = 2
CONSTANT NO = 2
CONSTANT NM = 2
CONSTANT DMax = 2
CONSTANT Bug = "ignore_job_clock"
SPECIFICATION Spec
INVARIANT Valid
CHECK_DEADLOCK FALSE
