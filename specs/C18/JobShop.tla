---------------------------- MODULE JobShop ----------------------------
(* List scheduling (job_shop._dispatch) as a transition system: repeatedly dispatch the next    *)
(* operation of ANY job (every dispatch rule is one resolution); start = max(machine clock,      *)
(* job clock).  For ALL instances with NJ jobs x NO operations, machines 0..NM-1 (repeats         *)
(* allowed), durations 0..DMax, TLC checks that every dispatch order yields a valid schedule.     *)
EXTENDS Integers, FiniteSets, Sequences, TLC
CONSTANTS NJ, NO, NM, DMax, Bug
Jobs == 1..NJ
Ops == 1..NO
VARIABLES mach, dur, nextop, mfree, jfree, st, en
vars == <<mach, dur, nextop, mfree, jfree, st, en>>
Init == /\ mach \in [Jobs \X Ops -> 0..(NM - 1)] /\ dur \in [Jobs \X Ops -> 0..DMax]
        /\ nextop = [j \in Jobs |-> 1] /\ mfree = [m \in 0..(NM - 1) |-> 0] /\ jfree = [j \in Jobs |-> 0]
        /\ st = [p \in Jobs \X Ops |-> -1] /\ en = [p \in Jobs \X Ops |-> -1]
Max2(a, b) == IF a >= b THEN a ELSE b
Dispatch(j) == /\ nextop[j] <= NO
               /\ LET o == nextop[j]  m == mach[<<j, o>>]
                      s == IF Bug = "ignore_job_clock" THEN mfree[m] ELSE Max2(mfree[m], jfree[j])
                  IN /\ st' = [st EXCEPT ![<<j, o>>] = s] /\ en' = [en EXCEPT ![<<j, o>>] = s + dur[<<j, o>>]]
                     /\ mfree' = [mfree EXCEPT ![m] = s + dur[<<j, o>>]] /\ jfree' = [jfree EXCEPT ![j] = s + dur[<<j, o>>]]
               /\ nextop' = [nextop EXCEPT ![j] = @ + 1] /\ UNCHANGED <<mach, dur>>
Next == \E j \in Jobs : Dispatch(j)
Spec == Init /\ [][Next]_vars
Done(p) == st[p] >= 0
\* validity of the part scheduled so far
Valid == /\ \A p \in Jobs \X Ops : Done(p) => en[p] - st[p] = dur[p]
         /\ \A j \in Jobs : \A o \in 1..(NO - 1) : (Done(<<j, o>>) /\ Done(<<j, o + 1>>)) => en[<<j, o>>] <= st[<<j, o + 1>>]
         /\ \A p, q \in Jobs \X Ops : (p # q /\ Done(p) /\ Done(q) /\ mach[p] = mach[q]) =>
               (en[p] <= st[q] \/ en[q] <= st[p] \/ st[p] = en[p] \/ st[q] = en[q])
========================================================================
