CONSTANT N = 3
CONSTANT Alg = "tarjan"
CONSTANT Bug = "none"
CONSTANT AllOrders = FALSE
SPECIFICATION Spec
INVARIANT EmittedAreSccs
INVARIANT TarjanFinal
INVARIANT KahnFinal
INVARIANT AcyclicTwin
CHECK_DEADLOCK FALSE
