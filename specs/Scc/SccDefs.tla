---------------------------- MODULE SccDefs ----------------------------
(* Directed graphs as edge sequences <<u, v>> over nodes 0..n-1 (duplicates, self loops ok). *)
EXTENDS Integers, FiniteSets, Sequences
Nodes(n) == 0..(n - 1)
Succ(E, u) == {E[i][2] : i \in {j \in 1..Len(E) : E[j][1] = u}}
RECURSIVE ReachFrom(_, _)
ReachFrom(E, S) == LET T == S \cup UNION {Succ(E, u) : u \in S} IN IF T = S THEN S ELSE ReachFrom(E, T)
Reaches(E, u, v) == v \in ReachFrom(E, {u})
SccOf(n, E, u) == {v \in Nodes(n) : Reaches(E, u, v) /\ Reaches(E, v, u)}
SccClasses(n, E) == {SccOf(n, E, u) : u \in Nodes(n)}
HasEdge(E, u, v) == \E i \in 1..Len(E) : E[i][1] = u /\ E[i][2] = v
\* twin: acyclic iff no node reaches itself through at least one edge
Acyclic(n, E) == \A u \in Nodes(n) : u \notin ReachFrom(E, Succ(E, u))
IsTopoOrder(n, E, ord) == /\ Len(ord) = n /\ {ord[i] : i \in 1..Len(ord)} = Nodes(n)
                          /\ \A i, j \in 1..Len(ord) : HasEdge(E, ord[i], ord[j]) => i < j
\* sinks first: no edge from an earlier component to a later one
SinksFirst(E, comps) == \A i, j \in 1..Len(comps) : i < j => ~\E u \in comps[i], v \in comps[j] : HasEdge(E, u, v)
=========================================================================
