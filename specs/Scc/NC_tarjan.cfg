CONSTANT N = 3
CONSTANT Alg = "tarjan"
CONSTANT Bug = "ignore_back_edges"
CONSTANT AllOrders = FALSE
SPECIFICATION Spec
INVARIANT EmittedAreSccs
INVARIANT TarjanFinal
INVARIANT KahnFinal
INVARIANT AcyclicTwin
CHECK_DEADLOCK FALSE
