---------------------------- MODULE SccAlgs ----------------------------
(* Tarjan's SCC algorithm (explicit recursion stack) and Kahn's topological sort as          *)
(* transition systems, over ALL digraphs on N nodes given as adjacency sequences in EVERY    *)
(* neighbour order and EVERY node iteration order (chosen in Init).                          *)
EXTENDS SccDefs, TLC
CONSTANTS N, Alg, Bug, AllOrders
Perms(S) == {f \in [1..Cardinality(S) -> S] : \A i, j \in 1..Cardinality(S) : i # j => f[i] # f[j]}
AdjLists == IF AllOrders THEN UNION {Perms(S) : S \in SUBSET Nodes(N)}
            ELSE {CHOOSE f \in Perms(S) : \A i, j \in 1..Cardinality(S) : i < j => f[i] < f[j] : S \in SUBSET Nodes(N)}
VARIABLES adj, order, idx, low, stk, comps, call, nxt, cnt, indeg, queue, result, done
vars == <<adj, order, idx, low, stk, comps, call, nxt, cnt, indeg, queue, result, done>>
E == LET RECURSIVE F(_, _)
         F(u, i) == IF u >= N THEN <<>> ELSE IF i > Len(adj[u]) THEN F(u + 1, 1) ELSE << <<u, adj[u][i]>> >> \o F(u, i + 1)
     IN F(0, 1)
Min2(a, b) == IF a <= b THEN a ELSE b
OnStk == {stk[i] : i \in 1..Len(stk)}
Init == /\ adj \in [Nodes(N) -> AdjLists]
        /\ order \in (IF AllOrders THEN Perms(Nodes(N)) ELSE {[i \in 1..N |-> i - 1]})
        /\ idx = [v \in Nodes(N) |-> -1] /\ low = [v \in Nodes(N) |-> -1] /\ stk = <<>> /\ comps = <<>> /\ call = <<>>
        /\ nxt = 1 /\ cnt = 0 /\ done = FALSE
        /\ indeg = [v \in Nodes(N) |-> Cardinality({<<u, i>> \in Nodes(N) \X (1..N) : i <= Len(adj[u]) /\ adj[u][i] = v})]
        /\ queue = <<>> /\ result = <<>>
KeepK == UNCHANGED <<indeg, queue, result>>
KeepT == UNCHANGED <<idx, low, stk, comps, call, nxt, cnt>>
Enter(v) == /\ idx' = [idx EXCEPT ![v] = cnt] /\ low' = [low EXCEPT ![v] = cnt] /\ cnt' = cnt + 1
            /\ stk' = Append(stk, v) /\ call' = Append(call, [v |-> v, i |-> 1])
\* ---- Tarjan
Root == /\ Alg = "tarjan" /\ ~done /\ call = <<>> /\ nxt <= N
        /\ IF idx[order[nxt]] # -1 THEN nxt' = nxt + 1 /\ UNCHANGED <<idx, low, stk, call, cnt>>
           ELSE Enter(order[nxt]) /\ nxt' = nxt + 1
        /\ UNCHANGED <<adj, order, comps, done>> /\ KeepK
Top == call[Len(call)]
Scan == /\ Alg = "tarjan" /\ ~done /\ call # <<>> /\ Top.i <= Len(adj[Top.v])
        /\ LET v == Top.v  w == adj[v][Top.i] IN
           IF idx[w] = -1 THEN Enter(w) /\ UNCHANGED <<comps, nxt>>            \* recurse; Top.i advances on return
           ELSE /\ low' = IF w \in OnStk /\ Bug # "ignore_back_edges" THEN [low EXCEPT ![v] = Min2(low[v], idx[w])] ELSE low
                /\ call' = [call EXCEPT ![Len(call)].i = @ + 1]
                /\ UNCHANGED <<idx, stk, comps, nxt, cnt>>
        /\ UNCHANGED <<adj, order, done>> /\ KeepK
PopUntil(s, v) == LET p == CHOOSE i \in 1..Len(s) : s[i] = v /\ \A j \in (i + 1)..Len(s) : s[j] # v IN p
Return == /\ Alg = "tarjan" /\ ~done /\ call # <<>> /\ Top.i > Len(adj[Top.v])
          /\ LET v == Top.v  root == low[v] = idx[v]  p == PopUntil(stk, v) IN
             /\ IF root THEN comps' = Append(comps, {stk[i] : i \in p..Len(stk)}) /\ stk' = SubSeq(stk, 1, p - 1)
                ELSE UNCHANGED <<comps, stk>>
             /\ IF Len(call) > 1
                  THEN LET par == call[Len(call) - 1].v IN
                       /\ low' = [low EXCEPT ![par] = Min2(low[par], low[v])]
                       /\ call' = [SubSeq(call, 1, Len(call) - 1) EXCEPT ![Len(call) - 1].i = @ + 1]
                  ELSE low' = low /\ call' = <<>>
          /\ UNCHANGED <<adj, order, idx, nxt, cnt, done>> /\ KeepK
TarjanDone == Alg = "tarjan" /\ ~done /\ call = <<>> /\ nxt > N /\ done' = TRUE
              /\ UNCHANGED <<adj, order>> /\ KeepT /\ KeepK
\* ---- Kahn
KahnStart == /\ Alg = "kahn" /\ ~done /\ nxt = 1
             /\ queue' = SelectSeq(order, LAMBDA v : indeg[v] = 0) /\ nxt' = 2
             /\ UNCHANGED <<adj, order, idx, low, stk, comps, call, cnt, indeg, result, done>>
RECURSIVE DecAll(_, _, _, _)
DecAll(d, q, lst, i) == IF i > Len(lst) THEN <<d, q>>
                        ELSE LET w == lst[i] d2 == [d EXCEPT ![w] = @ - 1]
                             IN DecAll(d2, IF d2[w] = 0 THEN Append(q, w) ELSE q, lst, i + 1)
KahnStep == /\ Alg = "kahn" /\ ~done /\ nxt = 2 /\ queue # <<>>
            /\ LET v == Head(queue)  r == DecAll(indeg, Tail(queue), adj[v], 1) IN
               /\ result' = Append(result, v) /\ indeg' = r[1] /\ queue' = r[2]
            /\ UNCHANGED <<adj, order, done>> /\ KeepT
KahnDone == Alg = "kahn" /\ ~done /\ nxt = 2 /\ queue = <<>> /\ done' = TRUE
            /\ UNCHANGED <<adj, order>> /\ KeepT /\ KeepK
Next == Root \/ Scan \/ Return \/ TarjanDone \/ KahnStart \/ KahnStep \/ KahnDone
Spec == Init /\ [][Next]_vars
\* ---- properties
CompSet == {comps[i] : i \in 1..Len(comps)}
EmittedAreSccs == Alg = "tarjan" => CompSet \subseteq SccClasses(N, E)
TarjanFinal == (Alg = "tarjan" /\ done) => /\ CompSet = SccClasses(N, E) /\ Len(comps) = Cardinality(CompSet)
                                            /\ SinksFirst(E, comps)
KahnFinal == (Alg = "kahn" /\ done) => IF Acyclic(N, E) THEN IsTopoOrder(N, E, result) ELSE Len(result) < N
\* twin: acyclic <=> every SCC is a single node without a self loop
AcyclicTwin == Acyclic(N, E) = \A c \in SccClasses(N, E) : Cardinality(c) = 1 /\ \A u \in c : ~HasEdge(E, u, u)
=========================================================================
