---------------------------- MODULE SccTrace ----------------------------
(* Batch validation of strongly_connected_components / topological_sort / condense and the   *)
(* _edges variants (C14).  Graph: m nodes 0..m-1, of which the first n are passed as `nodes`  *)
(* (the rest are "outside" neighbours), edges <<u, v>>.                                       *)
EXTENDS SccDefs, TLC, Json, IOUtils
Batch == JsonDeserialize(IOEnv.TRACE_FILE)
VARIABLES tid, l, ok, why
vars == <<tid, l, ok, why>>
T == Batch[tid]
E == T.edges
ToSet(s) == {s[i] : i \in 1..Len(s)}
Given == Nodes(T.n)
Inner == SelectSeq(E, LAMBDA e : e[1] \in Given /\ e[2] \in Given)
Init == tid \in 1..Len(Batch) /\ l = 1 /\ ok = TRUE /\ why = ""
CheckScc(e) ==
  LET cs == [i \in 1..Len(e.comps) |-> ToSet(e.comps[i])]
      U == UNION {cs[i] : i \in 1..Len(cs)}
  IN IF e.status # "OPTIMAL" THEN "Return.unexpected_status"
     ELSE IF \E i \in 1..Len(cs) : Len(e.comps[i]) # Cardinality(cs[i]) \/ cs[i] = {} THEN "Scc.component_with_repeated_or_no_node"
     ELSE IF \E i, j \in 1..Len(cs) : i < j /\ cs[i] \cap cs[j] # {} THEN "Scc.node_in_two_components"
     ELSE IF ~(Given \subseteq U) THEN "Scc.node_missing"
     \* the graph is the one induced by the listed nodes (what topological_sort has always used): neighbours outside the node set
     \* are not nodes, and reachability through them does not count
     ELSE IF ~(U \subseteq Given) THEN "Scc.node_outside_the_node_set"
     ELSE IF \E i \in 1..Len(cs) : \E u \in cs[i] : cs[i] # SccOf(T.m, Inner, u) THEN "Scc.component_is_not_a_mutual_reachability_class"
     ELSE IF ~SinksFirst(Inner, cs) THEN "Scc.not_sinks_first"
     ELSE ""
CheckTopo(e) ==
  IF e.status = "INFEASIBLE" THEN (IF Acyclic(T.n, Inner) THEN "Topo.infeasible_but_acyclic" ELSE "")
  ELSE IF e.status # "OPTIMAL" THEN "Return.unexpected_status"
  ELSE IF ~Acyclic(T.n, Inner) THEN "Topo.order_for_cyclic_graph"
  ELSE IF ~IsTopoOrder(T.n, Inner, e.order) THEN "Topo.not_a_topological_order"
  ELSE ""
CheckCondense(e) ==
  LET w == CheckScc(e)
      cs == [i \in 1..Len(e.comps) |-> ToSet(e.comps[i])]
      adjm == [i \in 1..Len(cs) |-> ToSet(e.adj[i])]
      Joined(i, j) == \E u \in cs[i], v \in cs[j] : HasEdge(Inner, u, v)
  IN IF w # "" /\ w # "Scc.not_sinks_first" THEN w
     ELSE IF \E i \in 1..Len(cs) : Len(e.adj[i]) # Cardinality(adjm[i]) THEN "Condense.duplicate_successor"
     ELSE IF \E i, j \in 1..Len(cs) : (j \in adjm[i]) # (i # j /\ Joined(i, j)) THEN "Condense.edge_set_wrong"
     ELSE IF ~Acyclic(Len(cs), LET RECURSIVE F(_, _)
                                   F(i, acc) == IF i > Len(cs) THEN acc ELSE F(i + 1, acc \o [k \in 1..Len(e.adj[i]) |-> <<i - 1, e.adj[i][k] - 1>>])
                               IN F(1, <<>>)) THEN "Condense.not_acyclic"
     ELSE ""
Check(e) == IF e.e = "raise" THEN "Raise." \o e.what
            ELSE IF e.e = "noreturn" THEN "NoReturn"
            ELSE IF e.fn \in {"scc", "scc_edges"} THEN CheckScc(e)
            ELSE IF e.fn \in {"topo", "topo_edges"} THEN CheckTopo(e)
            ELSE CheckCondense(e)
Step == /\ ok /\ l <= Len(T.events) /\ l' = l + 1 /\ UNCHANGED tid
        /\ LET w == Check(T.events[l]) IN IF w = "" THEN UNCHANGED <<ok, why>> ELSE ok' = FALSE /\ why' = T.events[l].fn \o ":" \o w
Spec == Init /\ [][Step]_vars
Report == (l = Len(T.events) + 1 \/ ~ok) => PrintT(ToJson([tid |-> tid, ok |-> ok, why |-> why, l |-> l, div |-> {}]))
==========================================================================
