---------------------------- MODULE TarjanSteps ----------------------------
(* Step-level validation of Tarjan's algorithm inside strongly_connected_components (C14).    *)
(* Hook events of one call, in order:                                                          *)
(*    visit(v)         v gets the next discovery index and is pushed                            *)
(*    finish(v, low)   all successors of v have been handled; low is v's low-link               *)
(*    pop(comp)        a component is emitted                                                    *)
(* The spec keeps the state of SccAlgs' Tarjan (explicit stack variant): discovery order,      *)
(* stack, emitted nodes - and checks every event against it:                                    *)
(*    Visit    only unvisited nodes of the induced graph are visited                             *)
(*    Finish   v finishes only after everything visited since v has finished (DFS nesting);      *)
(*             low = index[v] exactly when v is the root of its component, i.e. when no node      *)
(*             visited since v (still on the stack) has an edge to a stack node older than v       *)
(*    Pop      happens exactly at a root's finish, and the emitted set is the stack suffix from    *)
(*             that root upwards                                                                    *)
(* and at the end: every node was visited, the stack is empty.  Diagnostic (`div`); the           *)
(* returned components are decided by SccTrace.                                                    *)
EXTENDS SccDefs, TLC, Json, IOUtils
Batch == JsonDeserialize(IOEnv.TRACE_FILE)
VARIABLES tid, l, order, stack, open, emitted, expectpop, div
vars == <<tid, l, order, stack, open, emitted, expectpop, div>>
T == Batch[tid]
E == T.edges
Given == Nodes(T.n)
Inner == SelectSeq(E, LAMBDA e : e[1] \in Given /\ e[2] \in Given)
ToSet(s) == {s[i] : i \in 1..Len(s)}
Idx(v) == CHOOSE i \in 1..Len(order) : order[i] = v
Init == /\ tid \in 1..Len(Batch) /\ l = 1 /\ order = <<>> /\ stack = <<>> /\ open = <<>> /\ emitted = {} /\ expectpop = <<>> /\ div = {}
\* nodes on the stack from v upwards
Suffix(v) == LET k == CHOOSE i \in 1..Len(stack) : stack[i] = v IN {stack[i] : i \in k..Len(stack)}
Older(v) == LET k == CHOOSE i \in 1..Len(stack) : stack[i] = v IN {stack[i] : i \in 1..(k - 1)}
IsRoot(v) == ~\E u \in Suffix(v) : \E w \in Older(v) : HasEdge(Inner, u, w)
Step == /\ l <= Len(T.steps) /\ l' = l + 1 /\ UNCHANGED tid
        /\ LET e == T.steps[l] IN
           CASE e.k = "visit" ->
                  /\ order' = Append(order, e.v) /\ stack' = Append(stack, e.v) /\ open' = Append(open, e.v)
                  /\ UNCHANGED <<emitted, expectpop>>
                  /\ div' = div \cup (IF e.v \in Given /\ e.v \notin ToSet(order) THEN {} ELSE {"Visit.node_outside_the_graph_or_visited_twice"})
                              \cup (IF expectpop = <<>> THEN {} ELSE {"Pop.missing_after_root_finished"})
             [] e.k = "finish" ->
                  IF open = <<>> \/ open[Len(open)] # e.v \/ e.v \notin ToSet(stack)
                  THEN /\ UNCHANGED <<order, stack, open, emitted, expectpop>>
                       /\ div' = div \cup {"Finish.not_the_innermost_open_node"}
                  ELSE /\ open' = SubSeq(open, 1, Len(open) - 1)
                       /\ UNCHANGED <<order, stack, emitted>>
                       /\ expectpop' = (IF IsRoot(e.v) THEN <<e.v>> ELSE <<>>)
                       /\ div' = div \cup (IF (e.low = Idx(e.v) - 1) = IsRoot(e.v) THEN {} ELSE {"Finish.lowlink_root_test_differs_from_definition"})
                                   \cup (IF expectpop = <<>> THEN {} ELSE {"Pop.missing_after_root_finished"})
             [] e.k = "pop" ->
                  LET comp == ToSet(e.comp) IN
                  /\ UNCHANGED <<order, open>>
                  /\ emitted' = emitted \cup comp
                  /\ stack' = SelectSeq(stack, LAMBDA x : x \notin comp)
                  /\ expectpop' = <<>>
                  /\ div' = div \cup (IF expectpop = <<>> THEN {"Pop.without_a_root_finish"}
                                      ELSE IF comp = Suffix(expectpop[1]) THEN {} ELSE {"Pop.component_is_not_the_stack_suffix_of_the_root"})
             [] OTHER -> UNCHANGED <<order, stack, open, emitted, expectpop, div>>
Spec == Init /\ [][Step]_vars
Final == (IF ToSet(order) = Given THEN {} ELSE {"Finish.not_every_node_visited"})
         \cup (IF stack = <<>> /\ open = <<>> /\ expectpop = <<>> THEN {} ELSE {"Finish.stack_not_empty"})
Report == (l = Len(T.steps) + 1) =>
            PrintT(ToJson([tid |-> tid, ok |-> TRUE, why |-> "", l |-> l, div |-> div \cup Final, steps |-> Len(T.steps)]))
============================================================================
