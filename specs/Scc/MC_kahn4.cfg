CONSTANT N = 4
CONSTANT Alg = "kahn"
CONSTANT Bug = "none"
CONSTANT AllOrders = FALSE
SPECIFICATION Spec
INVARIANT EmittedAreSccs
INVARIANT TarjanFinal
INVARIANT KahnFinal
INVARIANT AcyclicTwin
CHECK_DEADLOCK FALSE
