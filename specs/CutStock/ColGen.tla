---------------------------- MODULE ColGen ----------------------------
(* Column generation for cutting stock at design level (C17), as a transition system over     *)
(* the column set of the restricted master, for ALL demand vectors over a small roll:          *)
(*   master   min sum(x)  s.t.  sum_j x_j col_j >= demand, x >= 0   (exact, by Lin)            *)
(*   Price    pick ANY optimal dual vertex y of the master and ANY fitting pattern p with      *)
(*            y.p > 1 (negative reduced cost); p joins the columns                              *)
(*   Converge SOME optimal dual vertex prices every fitting pattern at <= 1                     *)
(* Theorems (TLC, every reachable state, every resolution of the two choices):                  *)
(*   BoundValid   once converged the master value equals the LP value over ALL patterns, and    *)
(*                its ceiling does not exceed the true minimum number of rolls - this is what    *)
(*                solve_cg's OPTIMAL label rests on                                               *)
(*   MasterMonotone  adding a column never makes the master worse                                *)
(*   NoStuck / termination: the column set grows strictly until Converge is enabled              *)
(* Negative control Bug = "tailing_off": Converge as soon as the last added column did not       *)
(* improve the master value (a stop rule that looks harmless; it is the seeded change            *)
(* C17-cg-tailing-off-stop) - TLC finds a degenerate instance where the bound is then invalid.   *)
EXTENDS Lin, CutDefs, TLC
CONSTANTS W, Sizes, MaxD, Bug
SZ23 == <<2, 3>>
SZ123 == <<1, 2, 3>>
SZ234 == <<2, 3, 4>>
NT == Len(Sizes)
Fit == {p \in [1..NT -> 0..W] : (\A i \in 1..NT : p[i] <= W \div Sizes[i]) /\ FitsRoll(W, Sizes, p) /\ \E i \in 1..NT : p[i] > 0}
VARIABLES dem, cols, last, status
vars == <<dem, cols, last, status>>
\* the restricted master in Lin's form  min c.x, A x <= b  (rows negated: -sum_j col_j[i] x_j <= -dem[i])
ColSeq(S) == LET RECURSIVE F(_, _)
                 F(T, acc) == IF T = {} THEN acc ELSE LET x == CHOOSE y \in T : TRUE IN F(T \ {x}, Append(acc, x))
             IN F(S, <<>>)
MA(cs) == [i \in 1..NT |-> [j \in 1..Len(cs) |-> -cs[j][i]]]
Mb == [i \in 1..NT |-> -dem[i]]
Ones(k) == [j \in 1..k |-> 1]
Coverable(S) == \A i \in 1..NT : dem[i] > 0 => \E p \in S : p[i] > 0
LpVal(S) == LET cs == ColSeq(S) IN MinObj(MA(cs), Mb, Ones(Len(cs)), NT, Len(cs))          \* <<num, den>>, S coverable
\* dual of the master:  max dem.y  s.t.  col.y <= 1 for every column, y >= 0;  in Lin's form  min -dem.y, C y <= 1
DA(cs) == [j \in 1..Len(cs) |-> [i \in 1..NT |-> cs[j][i]]]
DualVerts(S) ==          \* optimal dual vertices as <<numerators per piece, common denominator>>
  LET cs == ColSeq(S)  k == Len(cs)  A == DA(cs)  b == Ones(k)  c == [i \in 1..NT |-> -dem[i]]
      best == MinObj(A, b, c, k, NT)
      opt == {B \in FeasBases(A, b, k, NT) : LET o == ObjAt(A, b, c, k, NT, B) IN ~Less(o, best) /\ ~Less(best, o)}
      Y(B) == LET bs == Basic(A, b, k, NT, B)  s == Sgn(bs.d)
              IN <<[i \in 1..NT |-> IF \E q \in 1..k : B[q] = i THEN bs.num[CHOOSE q \in 1..k : B[q] = i] * s ELSE 0], bs.d * s>>
  IN {Y(B) : B \in opt}
\* y.p > 1  with y = num/den
Improving(y, p) == SumSeq(LAMBDA i : y[1][i] * p[i], NT) > y[2]
Init == /\ dem \in [1..NT -> 0..MaxD] /\ \E i \in 1..NT : dem[i] > 0
        /\ cols = {[i \in 1..NT |-> IF i = j THEN W \div Sizes[j] ELSE 0] : j \in {q \in 1..NT : dem[q] > 0}}
        /\ last = <<0, 1>> /\ status = "run"
Price == /\ status = "run"
         /\ \E y \in DualVerts(cols) : \E p \in Fit \ cols :
              /\ Improving(y, p)
              /\ cols' = cols \cup {p}
              /\ last' = LpVal(cols)
         /\ UNCHANGED <<dem, status>>
Converge == /\ status = "run"
            /\ IF Bug = "tailing_off"
               THEN last # <<0, 1>> /\ ~Less(LpVal(cols), last)           \* the last column did not improve the master
               ELSE \E y \in DualVerts(cols) : \A p \in Fit : ~Improving(y, p)
            /\ status' = "converged" /\ UNCHANGED <<dem, cols, last>>
Next == Price \/ Converge
Spec == Init /\ [][Next]_vars
RECURSIVE CeilQ(_)
CeilQ(v) == IF v[1] <= 0 THEN 0 ELSE (v[1] + v[2] - 1) \div v[2]
BoundValid == status = "converged" =>
                /\ ~Less(LpVal(cols), LpVal(Fit)) /\ ~Less(LpVal(Fit), LpVal(cols))
                /\ CeilQ(LpVal(cols)) <= MinRolls(W, Sizes, dem)
MasterMonotone == [][cols' # cols => ~Less(LpVal(cols), LpVal(cols'))]_vars
NoStuck == status = "run" => ENABLED Next
=======================================================================
