---------------------------- MODULE CutTrace ----------------------------
(* Batch validation of solve_cg / solve_bp (C17).  kind "stock": roll width W, piece sizes,     *)
(* demands.  kind "custom": explicit column pool (the pricing function enumerates it).          *)
EXTENDS CutDefs, TLC, Json, IOUtils
Batch == JsonDeserialize(IOEnv.TRACE_FILE)
VARIABLES tid, l, ok, why, opt, wit
vars == <<tid, l, ok, why, opt, wit>>
T == Batch[tid]
ToSet(s) == {s[i] : i \in 1..Len(s)}
Init == /\ tid \in 1..Len(Batch) /\ l = 1 /\ ok = TRUE /\ why = ""
        /\ wit = {}
        /\ opt = IF Batch[tid].kind = "stock" THEN MinRolls(Batch[tid].W, Batch[tid].sizes, Batch[tid].demands)
                 ELSE MinCover(ToSet(Batch[tid].pool), Batch[tid].demands)
NT == Len(T.demands)
Check(e) ==
  IF e.e = "raise" THEN "Raise." \o e.what
  ELSE IF e.e = "noreturn" THEN "NoReturn"
  ELSE IF e.status \in {"INFEASIBLE", "MAX_ITER"} THEN ""            \* no usable plan is claimed
  ELSE IF e.status \notin {"OPTIMAL", "FEASIBLE"} THEN "Return.unexpected_status"
  ELSE LET plan == e.plan                                        \* sequence of [p |-> pattern, k |-> count]
           rolls == SumSeq(LAMBDA j : plan[j].k, Len(plan))
       IN IF \E j \in 1..Len(plan) : Len(plan[j].p) # NT \/ plan[j].k <= 0 \/ \E i \in 1..NT : plan[j].p[i] < 0 THEN "Plan.malformed_pattern_or_count"
          ELSE IF T.kind = "stock" /\ \E j \in 1..Len(plan) : ~FitsRoll(T.W, T.sizes, plan[j].p) THEN "Plan.pattern_exceeds_roll_width"
          ELSE IF T.kind = "custom" /\ \E j \in 1..Len(plan) : plan[j].p \notin ToSet(T.pool) THEN "Plan.column_not_from_the_pool"
          ELSE IF \E i \in 1..NT : SumSeq(LAMBDA j : plan[j].p[i] * plan[j].k, Len(plan)) < T.demands[i] THEN "Plan.demand_not_met"
          ELSE IF ~e.exact \/ e.obj # rolls THEN "Objective.is_not_number_of_rolls"
          ELSE IF opt >= 0 /\ rolls < opt THEN "Objective.below_true_minimum"
          ELSE IF e.status = "OPTIMAL" /\ rolls # opt THEN "Optimal.but_fewer_rolls_suffice"
          ELSE ""
\* witness predicate of a known finding (DESIGN §4.3): branch-and-price hands back exactly the plan column generation obtained by
\* rounding the root LP (which solve_cg itself only labels FEASIBLE) - i.e. the search never left the restricted master's columns
BpReturnsRootRounding == /\ l >= 2 /\ T.events[l].solver = "bp" /\ T.events[l - 1].solver = "cg" /\ T.events[l - 1].e = "ret"
                         /\ T.events[l - 1].status = "FEASIBLE"
                         /\ {<<T.events[l].plan[j].p, T.events[l].plan[j].k>> : j \in 1..Len(T.events[l].plan)}
                              = {<<T.events[l - 1].plan[j].p, T.events[l - 1].plan[j].k>> : j \in 1..Len(T.events[l - 1].plan)}
Step == /\ ok /\ l <= Len(T.events) /\ l' = l + 1 /\ UNCHANGED <<tid, opt>>
        /\ LET w == Check(T.events[l]) IN
           IF w = "" THEN UNCHANGED <<ok, why, wit>>
           ELSE ok' = FALSE /\ why' = T.events[l].solver \o ":" \o w /\ wit' = (IF T.events[l].e = "ret" /\ BpReturnsRootRounding THEN {"BpReturnsRootRounding"} ELSE {})
Spec == Init /\ [][Step]_vars
Report == (l = Len(T.events) + 1 \/ ~ok) => PrintT(ToJson([tid |-> tid, ok |-> ok, why |-> why, l |-> l, opt |-> opt, wit |-> wit, div |-> {}]))
=========================================================================
