CONSTANT W = 9
CONSTANT Sizes <- SZ234
CONSTANT MaxD = 2
CONSTANT Bug = "none"
SPECIFICATION Spec
INVARIANT BoundValid
INVARIANT NoStuck
PROPERTY MasterMonotone
CHECK_DEADLOCK FALSE
