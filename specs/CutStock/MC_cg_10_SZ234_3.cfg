CONSTANT W = 10
CONSTANT Sizes <- SZ234
CONSTANT MaxD = 3
CONSTANT Bug = "none"
SPECIFICATION Spec
INVARIANT BoundValid
INVARIANT NoStuck
PROPERTY MasterMonotone
CHECK_DEADLOCK FALSE
