CONSTANT W = 5
CONSTANT NT = 2
CONSTANT DMax = 3
SPECIFICATION Spec
INVARIANT Twin
CHECK_DEADLOCK FALSE
