---------------------------- MODULE CutDefs ----------------------------
(* Cutting stock / covering with explicit columns.  A pattern is a sequence of piece counts.  *)
(* MinRolls by breadth-first search over residual demand vectors: R0 = {demand},               *)
(* R(k+1) = {max(0, r - p) : r in Rk, p in Patterns}; the answer is the least k with 0 in Rk.  *)
EXTENDS Integers, FiniteSets, Sequences
SumSeq(f(_), k) == LET RECURSIVE G(_)
                       G(i) == IF i > k THEN 0 ELSE f(i) + G(i + 1)
                   IN G(1)
FitsRoll(W, sizes, p) == SumSeq(LAMBDA i : sizes[i] * p[i], Len(sizes)) <= W
\* all non-zero patterns, each count capped by the demand (more never helps)
Patterns(W, sizes, dem) == {p \in [1..Len(sizes) -> 0..(CHOOSE mx \in {dem[i] : i \in 1..Len(dem)} \cup {1} : \A i \in 1..Len(dem) : dem[i] <= mx)] :
                              /\ \A i \in 1..Len(sizes) : p[i] <= dem[i]
                              /\ \E i \in 1..Len(sizes) : p[i] > 0
                              /\ FitsRoll(W, sizes, p)}
Minus(r, p) == [i \in 1..Len(r) |-> IF r[i] > p[i] THEN r[i] - p[i] ELSE 0]
Zero(r) == \A i \in 1..Len(r) : r[i] = 0
RECURSIVE Bfs(_, _, _, _)
Bfs(R, P, k, limit) == IF \E r \in R : Zero(r) THEN k
                       ELSE IF k >= limit \/ P = {} THEN -1
                       ELSE Bfs({Minus(r, p) : r \in R, p \in P}, P, k + 1, limit)
MinCover(P, dem) == Bfs({dem}, P, 0, SumSeq(LAMBDA i : dem[i], Len(dem)) + 1)        \* -1 when the columns cannot cover
MinRolls(W, sizes, dem) == MinCover(Patterns(W, sizes, dem), dem)
\* twin: smallest k such that some multiset of k patterns (as a sequence) covers the demand; only for k <= 3
CoversK(P, dem, k) == \E s \in [1..k -> P] : \A i \in 1..Len(dem) : SumSeq(LAMBDA j : s[j][i], k) >= dem[i]
========================================================================
