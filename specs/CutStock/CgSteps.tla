---------------------------- MODULE CgSteps ----------------------------
(* Step-level validation of column generation inside solve_cg, cutting-stock mode (C17).       *)
(* The driver wraps the two module-level names the loop calls - _solve_master_lp and            *)
(* knapsack_pricing (nothing in the library changes) - and logs, per call, what went in and      *)
(* what came out.  Each record is checked as the step of the textbook scheme it implements:       *)
(*   master   the restricted master LP  min sum(x)  s.t.  sum_j x_j col_j >= demand, x >= 0.     *)
(*            The logged (x, duals, value) must be a primal-dual optimal pair: x feasible,         *)
(*            duals >= 0 and duals.col <= 1 for every master column, value = sum(x) =             *)
(*            duals.demand (strong duality) - which certifies the LP optimum without solving it,  *)
(*            and value <= the best integer plan over the same columns (CutDefs!MinCover).        *)
(*   price    the pricing knapsack: the returned pattern fits the roll, its value is              *)
(*            duals.pattern, and no fitting pattern is worth more (enumeration).                  *)
(*   finish   after convergence ceil(value) is a lower bound on the number of rolls: it must       *)
(*            not exceed CutDefs!MinRolls.                                                         *)
(* Numbers are scaled by 10^6; tolerances cover float rounding.  Diagnostic (`div`).             *)
EXTENDS CutDefs, TLC, Json, IOUtils
Batch == JsonDeserialize(IOEnv.TRACE_FILE)
VARIABLES tid, l, duals, div
vars == <<tid, l, duals, div>>
T == Batch[tid]
S6 == 1000000
TOL == 200
NT == Len(T.demands)
Abs(x) == IF x < 0 THEN -x ELSE x
Dot(d, p) == SumSeq(LAMBDA i : d[i] * p[i], NT)
\* custom-pricing mode: the trace carries the explicit column set ("pool") instead of a roll width; "fits the roll" becomes
\* "is a column of the set", the pricing optimum is taken over the set, the true minimum is MinCover over the set
Custom == "pool" \in DOMAIN T
PoolSet == IF Custom THEN {T.pool[j] : j \in 1..Len(T.pool)} ELSE {}
Fits(p) == IF Custom THEN p \in PoolSet ELSE FitsRoll(T.W, T.sizes, p)
AllFits == IF Custom THEN PoolSet
           ELSE {p \in [1..NT -> 0..T.W] : (\A i \in 1..NT : p[i] <= T.W \div T.sizes[i]) /\ FitsRoll(T.W, T.sizes, p)}
TrueMin == IF Custom THEN MinCover(PoolSet, T.demands) ELSE MinRolls(T.W, T.sizes, T.demands)
Init == tid \in 1..Len(Batch) /\ l = 1 /\ duals = <<>> /\ div = {}
MasterGuards(e) ==
  LET nc == Len(e.cols)
      covered(i) == SumSeq(LAMBDA j : e.x6[j] * e.cols[j][i], nc)
      sumx == SumSeq(LAMBDA j : e.x6[j], nc)
      colset == {e.cols[j] : j \in 1..nc}
      best == MinCover(colset, T.demands)
  IN (IF \A j \in 1..nc : Fits(e.cols[j]) THEN {} ELSE {"Master.column_does_not_fit_the_roll"})
     \cup (IF ~e.finite THEN {}
           ELSE (IF (\A j \in 1..nc : e.x6[j] >= -TOL) /\ (\A i \in 1..NT : covered(i) >= T.demands[i] * S6 - TOL * nc) THEN {} ELSE {"Master.primal_point_infeasible"})
                \cup (IF Abs(e.lp6 - sumx) <= TOL * (nc + 1) THEN {} ELSE {"Master.value_is_not_sum_of_x"})
                \cup (IF (\A i \in 1..NT : e.duals6[i] >= -TOL) /\ (\A j \in 1..nc : Dot(e.duals6, e.cols[j]) <= S6 + TOL * NT) THEN {} ELSE {"Master.duals_not_feasible"})
                \cup (IF Abs(Dot(e.duals6, T.demands) - e.lp6) <= TOL * (NT + 1) * 4 THEN {} ELSE {"Master.duality_gap(not_an_optimal_pair)"})
                \cup (IF best >= 0 /\ e.lp6 > best * S6 + TOL THEN {"Master.value_exceeds_best_integer_plan_over_its_columns"} ELSE {}))
PriceGuards(e) ==
  LET v == Dot(duals, e.pattern) IN
  (IF (e.value6 = 0 /\ \A i \in 1..NT : e.pattern[i] = 0) \/ (Fits(e.pattern) /\ \A i \in 1..NT : e.pattern[i] >= 0) THEN {} ELSE {"Pricing.pattern_does_not_fit_the_roll"})
  \cup (IF duals = <<>> THEN {"Pricing.before_any_master"}
        ELSE (IF Abs(e.value6 - v) <= TOL * NT * 4 THEN {} ELSE {"Pricing.value_is_not_duals_times_pattern"})
             \cup (IF \E p \in AllFits : Dot(duals, p) > e.value6 + TOL * NT * 4 THEN {"Pricing.better_pattern_exists"} ELSE {}))
Step == /\ l <= Len(T.steps) /\ l' = l + 1 /\ UNCHANGED tid
        /\ LET e == T.steps[l] IN
           CASE e.k = "master" -> /\ duals' = (IF e.finite THEN e.duals6 ELSE duals)
                                  /\ div' = div \cup MasterGuards(e)
             [] e.k = "price" -> /\ UNCHANGED duals /\ div' = div \cup PriceGuards(e)
             [] OTHER -> UNCHANGED <<duals, div>>
Spec == Init /\ [][Step]_vars
PriceIdx == {i \in 1..Len(T.steps) : T.steps[i].k = "price"}
LastPrice == T.steps[CHOOSE i \in PriceIdx : \A j \in PriceIdx : j <= i]
Final == (IF T.converged /\ T.lb > TrueMin /\ TrueMin >= 0
          THEN {"Finish.lower_bound_exceeds_true_minimum"} ELSE {})
         \* OPTIMAL rests on the master value being a lower bound, i.e. on a last pricing call that found no improving pattern
         \cup (IF T.status = "OPTIMAL" /\ (PriceIdx = {} \/ LastPrice.value6 > S6 + TOL * NT * 4)
               THEN {"Finish.optimal_claimed_without_pricing_proof"} ELSE {})
Report == (l = Len(T.steps) + 1) =>
            PrintT(ToJson([tid |-> tid, ok |-> TRUE, why |-> "", l |-> l, div |-> div \cup Final, steps |-> Len(T.steps)]))
========================================================================
