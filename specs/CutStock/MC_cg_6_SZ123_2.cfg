CONSTANT W = 6
CONSTANT Sizes <- SZ123
CONSTANT MaxD = 2
CONSTANT Bug = "none"
SPECIFICATION Spec
INVARIANT BoundValid
INVARIANT NoStuck
PROPERTY MasterMonotone
CHECK_DEADLOCK FALSE
