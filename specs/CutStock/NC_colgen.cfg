CONSTANT W = 7
CONSTANT Sizes <- SZ234
CONSTANT MaxD = 2
CONSTANT Bug = "tailing_off"
SPECIFICATION Spec
INVARIANT BoundValid
CHECK_DEADLOCK FALSE
