CONSTANT W = 4
CONSTANT NT = 2
CONSTANT DMax = 2
SPECIFICATION Spec
INVARIANT Twin
CHECK_DEADLOCK FALSE
