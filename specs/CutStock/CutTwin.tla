---------------------------- MODULE CutTwin ----------------------------
(* Oracle twin on a complete small scope: the BFS optimum equals the least k for which k       *)
(* patterns cover the demand (explicit enumeration), and is at least the volume bound.         *)
EXTENDS CutDefs, TLC
CONSTANTS W, NT, DMax
VARIABLES sizes, dem
Init == sizes \in [1..NT -> 1..W] /\ dem \in [1..NT -> 0..DMax]
Next == UNCHANGED <<sizes, dem>>
Spec == Init /\ [][Next]_<<sizes, dem>>
S == [i \in 1..NT |-> sizes[i]]
D == [i \in 1..NT |-> dem[i]]
Twin == LET k == MinRolls(W, S, D) P == Patterns(W, S, D) IN
        /\ k >= 0
        /\ (k <= 3 => (k = 0 \/ CoversK(P, D, k)) /\ (k > 0 => ~(k - 1 = 0 /\ Zero(D)) /\ (k - 1 >= 1 => ~CoversK(P, D, k - 1))))
        /\ k * W >= SumSeq(LAMBDA i : S[i] * D[i], NT)
========================================================================
