CONSTANT W = 7
CONSTANT Sizes <- SZ23
CONSTANT MaxD = 3
CONSTANT Bug = "none"
SPECIFICATION Spec
INVARIANT BoundValid
INVARIANT NoStuck
PROPERTY MasterMonotone
CHECK_DEADLOCK FALSE
