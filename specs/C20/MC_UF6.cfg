CONSTANT Bug = "none"
CONSTANT N = 6
SPECIFICATION Spec
INVARIANT Refines
INVARIANT CountOK
INVARIANT Forest
INVARIANT Ranks
PROPERTY StepOK
VIEW NoRet
CHECK_DEADLOCK FALSE
