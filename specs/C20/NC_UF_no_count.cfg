CONSTANT Bug = "no_count"
CONSTANT N = 3
SPECIFICATION Spec
INVARIANT Refines
INVARIANT CountOK
INVARIANT Forest
INVARIANT Ranks
PROPERTY StepOK
VIEW NoRet
CHECK_DEADLOCK FALSE
