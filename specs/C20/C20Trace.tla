---------------------------- MODULE C20Trace ----------------------------
(* Batch trace validation for UnionFind / FenwickTree (DESIGN §3.1 pattern).                 *)
(* Trace kinds:                                                                              *)
(*   uf_hist : call history of a real UnionFind(n); state = abstract partition + reported    *)
(*             representatives; every return value is an (R) guard.                          *)
(*   uf_step : one call applied to a real object that was put into a TLC-enumerated          *)
(*             implementation state (spec -> code replay of every transition);               *)
(*             (R): return value, abstract post-partition, component_count;                  *)
(*             diagnostic: exact parent/rank arrays equal the spec's successor.              *)
(*   fw_hist : call history of a real FenwickTree; state = plain array (scaled integers).    *)
EXTENDS UFDefs, FenwickDefs, TLC, Json, IOUtils
Batch == JsonDeserialize(IOEnv.TRACE_FILE)
VARIABLES tid, l, st, ok, why, div
vars == <<tid, l, st, ok, why, div>>
T == Batch[tid]
Ev == T.events
ToSet(s) == {s[i] : i \in 1..Len(s)}
Fn0(s) == [i \in 0..(Len(s) - 1) |-> s[i + 1]]          \* JSON array -> 0-based function

InitSt(t) == IF Batch[t].kind = "fw_hist" THEN [arr |-> Fn0(Batch[t].init)]
             ELSE [part |-> [e \in 0..(Batch[t].n - 1) |-> {e}], rep |-> [e \in 0..(Batch[t].n - 1) |-> -1]]
Init == /\ tid \in 1..Len(Batch) /\ l = 1 /\ ok = TRUE /\ why = "" /\ div = {}
        /\ st = InitSt(tid)

Fail(w) == ok' = FALSE /\ why' = w
Pass == UNCHANGED <<ok, why>>
Verdict(pairs) == \* pairs: sequence of <<condition, name>>; first failing one names the verdict
   LET bad == {i \in 1..Len(pairs) : ~pairs[i][1]} IN
   IF bad = {} THEN Pass ELSE Fail(pairs[CHOOSE i \in bad : \A j \in bad : i <= j][2])

SizesOK(ret, part) == LET n == Cardinality(DOMAIN part) IN
   \A k \in 1..n : Cardinality({i \in 1..Len(ret) : ret[i] = k}) = Cardinality({b \in Blocks(part) : Cardinality(b) = k})

UfHist(e) ==
  LET part == st.part  rep == st.rep IN
  CASE e.op = "union" ->
         /\ st' = [part |-> Merge(part, e.x, e.y),
                   rep |-> IF part[e.x] = part[e.y] THEN rep
                           ELSE [k \in DOMAIN rep |-> IF k \in part[e.x] \cup part[e.y] THEN -1 ELSE rep[k]]]
         /\ Verdict(<< <<e.ret = (part[e.x] # part[e.y]), "union.ret">> >>)
    [] e.op = "connected" ->
         /\ UNCHANGED st
         /\ Verdict(<< <<e.ret = (part[e.x] = part[e.y]), "connected.ret">> >>)
    [] e.op = "find" ->
         /\ st' = [st EXCEPT !.rep = [k \in DOMAIN rep |-> IF k \in part[e.x] THEN e.ret ELSE rep[k]]]
         /\ Verdict(<< <<e.ret \in part[e.x], "find.ret_not_in_block">>,
                       <<rep[e.x] = -1 \/ rep[e.x] = e.ret, "find.representative_changed_without_union">> >>)
    [] e.op = "count" ->
         /\ UNCHANGED st
         /\ Verdict(<< <<e.ret = Cardinality(Blocks(part)), "count.ret">> >>)
    [] e.op = "sizes" ->
         /\ UNCHANGED st
         /\ Verdict(<< <<SizesOK(e.ret, part), "sizes.ret">> >>)
    [] e.op = "components" ->
         /\ UNCHANGED st
         /\ Verdict(<< <<{ToSet(e.ret[i]) : i \in 1..Len(e.ret)} = Blocks(part), "components.ret">>,
                       <<Len(e.ret) = Cardinality(Blocks(part)), "components.duplicate_block">> >>)
    [] e.op = "len" ->
         /\ UNCHANGED st
         /\ Verdict(<< <<e.ret = Cardinality(DOMAIN part), "len.ret">> >>)
    [] OTHER -> UNCHANGED st /\ Fail("unknown_event")

UfStep(e) ==
  LET p == Fn0(e.pre.parent)  rk == Fn0(e.pre.rank)  cnt == e.pre.count
      q == Fn0(e.post.parent) qrk == Fn0(e.post.rank)
      apre == Abs(p)
      wellformed == \A x \in DOMAIN q : q[x] \in DOMAIN q /\ (q[x] # x => qrk[q[x]] > qrk[x])
  IN
  /\ UNCHANGED st
  /\ IF ~wellformed THEN Fail("step.post_state_not_a_ranked_forest") /\ UNCHANGED div
     ELSE
     CASE e.op = "union" ->
            LET u == UnionImpl(p, rk, cnt, e.x, e.y) IN
            /\ Verdict(<< <<e.ret = (apre[e.x] # apre[e.y]), "union.ret">>,
                          <<Abs(q) = Merge(apre, e.x, e.y), "union.partition">>,
                          <<e.post.count = Cardinality(Blocks(Merge(apre, e.x, e.y))), "union.count">> >>)
            /\ div' = IF q = u.parent /\ qrk = u.rank THEN div ELSE div \cup {"union.impl_state_differs_from_spec"}
       [] e.op = "find" ->
            /\ Verdict(<< <<e.ret \in apre[e.x], "find.ret_not_in_block">>,
                          <<Abs(q) = apre, "find.changed_partition">>,
                          <<Root(q, e.x) = e.ret, "find.not_a_root_afterwards">>,
                          <<e.post.count = cnt, "find.count">> >>)
            /\ div' = IF q = Compress(p, e.x) /\ qrk = rk /\ e.ret = Root(p, e.x) THEN div
                      ELSE div \cup {"find.impl_state_differs_from_spec"}
       [] e.op = "connected" ->
            /\ Verdict(<< <<e.ret = (apre[e.x] = apre[e.y]), "connected.ret">>,
                          <<Abs(q) = apre, "connected.changed_partition">>,
                          <<e.post.count = cnt, "connected.count">> >>)
            /\ div' = IF q = Compress(Compress(p, e.x), e.y) /\ qrk = rk THEN div
                      ELSE div \cup {"connected.impl_state_differs_from_spec"}
       [] e.op = "components" ->
            /\ Verdict(<< <<{ToSet(e.ret[i]) : i \in 1..Len(e.ret)} = Blocks(apre), "components.ret">>,
                          <<Len(e.ret) = Cardinality(Blocks(apre)), "components.duplicate_block">>,
                          <<Abs(q) = apre, "components.changed_partition">> >>)
            /\ UNCHANGED div
       [] e.op = "sizes" ->
            /\ Verdict(<< <<SizesOK(e.ret, apre), "sizes.ret">>, <<Abs(q) = apre, "sizes.changed_partition">> >>)
            /\ UNCHANGED div
       [] OTHER -> Fail("unknown_event") /\ UNCHANGED div

FwHist(e) ==
  LET arr == st.arr  n == Cardinality(DOMAIN arr) IN
  CASE e.op = "update" ->
         /\ st' = [arr |-> [arr EXCEPT ![e.i] = arr[e.i] + e.d]]
         /\ Pass
    [] e.op = "prefix" ->
         /\ UNCHANGED st
         /\ Verdict(<< <<e.exact, "prefix.not_exact">>, <<e.ret = SumTo(arr, e.i), "prefix.ret">> >>)
    [] e.op = "range" ->
         /\ UNCHANGED st
         /\ Verdict(<< <<e.exact, "range.not_exact">>, <<e.ret = SumRange(arr, e.lo, e.hi), "range.ret">> >>)
    [] e.op = "len" ->
         /\ UNCHANGED st
         /\ Verdict(<< <<e.ret = n, "len.ret">> >>)
    [] e.op = "tree" ->     \* diagnostic snapshot of the internal array against the representation invariant
         /\ UNCHANGED <<st, ok, why>>
    [] OTHER -> UNCHANGED st /\ Fail("unknown_event")

Step == /\ ok /\ l <= Len(Ev) /\ l' = l + 1 /\ tid' = tid
        /\ LET e == Ev[l] IN
           IF e.op = "raise" THEN UNCHANGED <<st, div>> /\ Fail("Raise." \o e.what)
           ELSE IF T.kind = "uf_hist" THEN UfHist(e) /\ UNCHANGED div
           ELSE IF T.kind = "uf_step" THEN UfStep(e)
           ELSE /\ FwHist(e)
                /\ div' = IF e.op = "tree" /\ ~RepInv(Fn0(e.t), st.arr, Len(e.t)) THEN div \cup {"fenwick.rep_invariant"} ELSE div
Spec == Init /\ [][Step]_vars
Report == (l = Len(Ev) + 1 \/ ~ok) => PrintT(ToJson([tid |-> tid, ok |-> ok, why |-> why, l |-> l, div |-> div]))
==========================================================================
