---------------------------- MODULE Fenwick ----------------------------
(* Design spec: FenwickTree (implementation `tree`) against a plain array `arr`.            *)
(* Init ranges over every initial array, so the O(n) constructor is covered; updates keep   *)
(* entries in -B..B (state constraint) so the space is finite.                              *)
EXTENDS FenwickDefs, TLC
CONSTANTS N, B, Bug
Idx == 0..(N - 1)
VARIABLES tree, arr
vars == <<tree, arr>>
Init == /\ arr \in [Idx -> (-1)..1]
        /\ tree = Build(arr, N)
Update(i, d) == /\ arr' = [arr EXCEPT ![i] = arr[i] + d]
                /\ tree' = IF Bug = "update_stops_early" /\ i = 0 THEN [tree EXCEPT ![0] = tree[0] + d]
                           ELSE UpdateT(tree, i, d, N)
Next == \E i \in Idx, d \in {-2, -1, 1, 2} : Update(i, d)
Spec == Init /\ [][Next]_vars
Bounded == \A i \in Idx : arr[i] \in (-B)..B
Rep == RepInv(tree, arr, N)
PrefixOK == \A i \in Idx : PrefixT(tree, i) = SumTo(arr, i)
RangeOK == \A lo, hi \in Idx : lo <= hi => RangeT(tree, lo, hi) = SumRange(arr, lo, hi)
\* queries are pure in the spec by construction (they are operators, not actions)
========================================================================
