CONSTANT N = 4
CONSTANT B = 2
CONSTANT Bug = "update_stops_early"
SPECIFICATION Spec
CONSTRAINT Bounded
INVARIANT Rep
INVARIANT PrefixOK
INVARIANT RangeOK
CHECK_DEADLOCK FALSE
