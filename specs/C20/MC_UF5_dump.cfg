CONSTANT Bug = "none"
CONSTANT N = 5
SPECIFICATION Spec
INVARIANT DumpState
VIEW NoRet
CHECK_DEADLOCK FALSE
