CONSTANT N = 4
CONSTANT B = 2
CONSTANT Bug = "none"
SPECIFICATION Spec
CONSTRAINT Bounded
INVARIANT Rep
INVARIANT PrefixOK
INVARIANT RangeOK
CHECK_DEADLOCK FALSE
