CONSTANT Bug = "none"
CONSTANT N = 4
SPECIFICATION Spec
INVARIANT DumpState
VIEW NoRet
CHECK_DEADLOCK FALSE
