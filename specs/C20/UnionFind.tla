---------------------------- MODULE UnionFind ----------------------------
(* Design spec: the implementation-level union-find (parent, rank, count) runs in lock     *)
(* step with the abstract partition `part`; TLC checks that every call returns what the    *)
(* abstract object returns and that the refinement mapping Abs(parent) = part is kept.     *)
(* The state space for a fixed N is finite and explored completely, so the result covers   *)
(* call histories of any length for that N.                                                *)
EXTENDS UFDefs, TLC, Json
CONSTANTS N, Bug   \* Bug = "none" in every real configuration; other values are negative controls
Elems == 0..(N - 1)
VARIABLES parent, rank, count, part, act, retI, retB, retS
vars == <<parent, rank, count, part, act, retI, retB, retS>>

Init == /\ parent = [e \in Elems |-> e]
        /\ rank = [e \in Elems |-> 0]
        /\ count = N
        /\ part = [e \in Elems |-> {e}]
        /\ act = <<"init", 0, 0>> /\ retI = 0 /\ retB = FALSE /\ retS = {}

Find(x) == /\ parent' = Compress(parent, x)
           /\ retI' = Root(parent, x) /\ act' = <<"find", x, 0>>
           /\ UNCHANGED <<rank, count, part, retB, retS>>

Union(x, y) == LET u == UnionImpl(parent, rank, count, x, y) IN
               /\ parent' = u.parent /\ rank' = u.rank
               /\ count' = IF Bug = "no_count" THEN count ELSE u.count
               /\ retB' = (IF Bug = "union_ret" THEN TRUE ELSE u.ret)
               /\ act' = <<"union", x, y>>
               /\ part' = Merge(part, x, y)
               /\ UNCHANGED <<retI, retS>>

Connected(x, y) == /\ parent' = Compress(Compress(parent, x), y)
                   /\ retB' = (Root(parent, x) = Root(parent, y)) /\ act' = <<"connected", x, y>>
                   /\ UNCHANGED <<rank, count, part, retI, retS>>

\* component_sizes / get_components call find(i) for every i in increasing order
RECURSIVE CompressAll(_, _)
CompressAll(p, i) == IF i = N THEN p ELSE CompressAll(Compress(p, i), i + 1)
Components == /\ parent' = CompressAll(parent, 0)
              /\ retS' = {Block(parent, e) : e \in Elems} /\ act' = <<"components", 0, 0>>
              /\ UNCHANGED <<rank, count, part, retI, retB>>

Next == \/ \E x \in Elems : Find(x)
        \/ \E x, y \in Elems : Union(x, y)
        \/ \E x, y \in Elems : Connected(x, y)
        \/ Components
Spec == Init /\ [][Next]_vars

\* ---- properties (C20) ----
Refines == Abs(parent) = part
CountOK == count = Cardinality(Roots(parent)) /\ count = Cardinality(Blocks(part))
Forest == Acyclic(parent, rank)
Ranks == RankBound(parent, rank)
\* queries never change the abstract state; union returns TRUE exactly when it merged two blocks;
\* find/connected/components answer as the partition does; the representative is stable (find twice)
StepOK == [][ LET op == act'[1]  x == act'[2]  y == act'[3] IN
              CASE op = "find" -> part' = part /\ retI' \in part[x] /\ Root(parent', x) = retI'
                                  /\ \A z \in part[x] : Root(parent', z) = retI'
                [] op = "union" -> retB' = (part[x] # part[y]) /\ part' = Merge(part, x, y)
                [] op = "connected" -> retB' = (part[x] = part[y]) /\ part' = part
                [] op = "components" -> retS' = Blocks(part) /\ part' = part
                [] OTHER -> TRUE ]_vars

\* state export for per-transition replay into the real class (spec -> code)
DumpState == PrintT(ToJson([parent |-> [i \in 1..N |-> parent[i - 1]], rank |-> [i \in 1..N |-> rank[i - 1]],
                            count |-> count, n |-> N]))
NoRet == <<parent, rank, count, part>>
==========================================================================
