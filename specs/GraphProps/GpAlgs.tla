---------------------------- MODULE GpAlgs ----------------------------
(* Design-level systems for C15 over ALL undirected graphs on N nodes (edge set in Init):    *)
(*  Alg = "lowlink": DFS with discovery / low values, explicit stack, every root order via   *)
(*        the node order chosen in Init; computes articulation points and bridges exactly   *)
(*        as articulation.py does (root: >= 2 DFS children; non-root: low[child] >= disc;   *)
(*        bridge: low[child] > disc).                                                       *)
(*  Alg = "peel": bucket peeling for core numbers: repeatedly remove ANY node of minimum     *)
(*        remaining degree; core = max(previous core level, that degree).                   *)
EXTENDS GpDefs, TLC
CONSTANTS N, Alg, Bug
AllPairs == {{u, v} : u \in Nodes(N), v \in Nodes(N)} \ {{u} : u \in Nodes(N)}
Perms(S) == {f \in [1..Cardinality(S) -> S] : \A i, j \in 1..Cardinality(S) : i # j => f[i] # f[j]}
VARIABLES F, order, disc, low, par, kids, call, nxt, cnt, ap, br, alive, core, level, done
vars == <<F, order, disc, low, par, kids, call, nxt, cnt, ap, br, alive, core, level, done>>
E == LET S == {<<u, v>> \in Nodes(N) \X Nodes(N) : {u, v} \in F /\ u < v}
         RECURSIVE G(_, _)
         G(T, acc) == IF T = {} THEN acc ELSE LET x == CHOOSE y \in T : TRUE IN G(T \ {x}, Append(acc, x))
     IN G(S, <<>>)
NbrSeq(v) == LET S == {u \in Nodes(N) : {u, v} \in F}
                 RECURSIVE G(_, _)
                 G(T, acc) == IF T = {} THEN acc ELSE LET x == CHOOSE y \in T : \A z \in T : y <= z IN G(T \ {x}, Append(acc, x))
             IN G(S, <<>>)
Min2(a, b) == IF a <= b THEN a ELSE b
Init == /\ F \in SUBSET AllPairs /\ order \in Perms(Nodes(N))
        /\ disc = [v \in Nodes(N) |-> -1] /\ low = [v \in Nodes(N) |-> -1] /\ par = [v \in Nodes(N) |-> -1]
        /\ kids = [v \in Nodes(N) |-> 0] /\ call = <<>> /\ nxt = 1 /\ cnt = 0 /\ ap = {} /\ br = {}
        /\ alive = Nodes(N) /\ core = [v \in Nodes(N) |-> -1] /\ level = 0 /\ done = FALSE
KeepP == UNCHANGED <<alive, core, level>>
KeepL == UNCHANGED <<disc, low, par, kids, call, nxt, cnt, ap, br>>
Enter(v, p) == /\ disc' = [disc EXCEPT ![v] = cnt] /\ low' = [low EXCEPT ![v] = cnt] /\ cnt' = cnt + 1
               /\ par' = [par EXCEPT ![v] = p] /\ call' = Append(call, [v |-> v, i |-> 1])
Root == /\ Alg = "lowlink" /\ ~done /\ call = <<>> /\ nxt <= N
        /\ IF disc[order[nxt]] # -1 THEN UNCHANGED <<disc, low, par, call, cnt>> ELSE Enter(order[nxt], -1)
        /\ nxt' = nxt + 1 /\ UNCHANGED <<F, order, kids, ap, br, done>> /\ KeepP
Top == call[Len(call)]
Scan == /\ Alg = "lowlink" /\ ~done /\ call # <<>> /\ Top.i <= Len(NbrSeq(Top.v))
        /\ LET v == Top.v  w == NbrSeq(v)[Top.i] IN
           IF disc[w] = -1 THEN Enter(w, v) /\ kids' = [kids EXCEPT ![v] = @ + 1] /\ UNCHANGED <<ap, br, nxt>>
           ELSE /\ low' = IF w # par[v] THEN [low EXCEPT ![v] = Min2(low[v], disc[w])] ELSE low
                /\ call' = [call EXCEPT ![Len(call)].i = @ + 1]
                /\ UNCHANGED <<disc, par, kids, cnt, ap, br, nxt>>
        /\ UNCHANGED <<F, order, done>> /\ KeepP
Return == /\ Alg = "lowlink" /\ ~done /\ call # <<>> /\ Top.i > Len(NbrSeq(Top.v))
          /\ IF Len(call) > 1
               THEN LET w == Top.v  v == call[Len(call) - 1].v  lv == Min2(low[v], low[w]) IN
                    /\ low' = [low EXCEPT ![v] = lv]
                    /\ ap' = IF par[v] = -1 THEN (IF kids[v] >= 2 THEN ap \cup {v} ELSE ap)
                             ELSE IF (IF Bug = "strict_ap_test" THEN low[w] > disc[v] ELSE low[w] >= disc[v]) THEN ap \cup {v} ELSE ap
                    /\ br' = IF low[w] > disc[v] THEN br \cup {{v, w}} ELSE br
                    /\ call' = [SubSeq(call, 1, Len(call) - 1) EXCEPT ![Len(call) - 1].i = @ + 1]
               ELSE call' = <<>> /\ UNCHANGED <<low, ap, br>>
          /\ UNCHANGED <<F, order, disc, par, kids, nxt, cnt, done>> /\ KeepP
LowDone == Alg = "lowlink" /\ ~done /\ call = <<>> /\ nxt > N /\ done' = TRUE /\ UNCHANGED <<F, order>> /\ KeepL /\ KeepP
\* ---- peeling
DegIn(v) == Cardinality({u \in alive : {u, v} \in F})
PeelStep == /\ Alg = "peel" /\ ~done /\ alive # {}
            /\ \E v \in alive :
                 /\ \A u \in alive : DegIn(v) <= DegIn(u)
                 /\ LET k == IF DegIn(v) > level THEN DegIn(v) ELSE level IN
                    /\ core' = [core EXCEPT ![v] = IF Bug = "no_level_floor" THEN DegIn(v) ELSE k] /\ level' = k
                 /\ alive' = alive \ {v}
            /\ UNCHANGED <<F, order, done>> /\ KeepL
PeelDone == Alg = "peel" /\ ~done /\ alive = {} /\ done' = TRUE /\ UNCHANGED <<F, order>> /\ KeepL /\ KeepP
Next == Root \/ Scan \/ Return \/ LowDone \/ PeelStep \/ PeelDone
Spec == Init /\ [][Next]_vars
LowFinal == (Alg = "lowlink" /\ done) => (ap = Articulation(N, E) /\ br = Bridges(N, E))
PeelFinal == (Alg = "peel" /\ done) => \A v \in Nodes(N) : core[v] = CoreNumber(N, E, v)
\* twin: a bridge is an edge on no cycle: its ends are disconnected without it
BridgeTwin == \A e \in F : (e \in Bridges(N, E)) = (LET u == CHOOSE x \in e : TRUE v == CHOOSE y \in e : y # u
                                                     IN v \notin Grow(Nodes(N), F \ {e}, {u}))
========================================================================
