CONSTANT N = 4
CONSTANT Alg = "peel"
CONSTANT Bug = "none"
SPECIFICATION Spec
INVARIANT LowFinal
INVARIANT PeelFinal
INVARIANT BridgeTwin
CHECK_DEADLOCK FALSE
