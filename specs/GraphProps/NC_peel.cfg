CONSTANT N = 4
CONSTANT Alg = "peel"
CONSTANT Bug = "no_level_floor"
SPECIFICATION Spec
INVARIANT LowFinal
INVARIANT PeelFinal
INVARIANT BridgeTwin
CHECK_DEADLOCK FALSE
