CONSTANT N = 4
CONSTANT Alg = "lowlink"
CONSTANT Bug = "none"
SPECIFICATION Spec
INVARIANT LowFinal
INVARIANT PeelFinal
INVARIANT BridgeTwin
CHECK_DEADLOCK FALSE
