---------------------------- MODULE GpDefs ----------------------------
(* Undirected simple graphs from (possibly asymmetric, duplicated, self-looping) neighbour   *)
(* lists: Adj(n, E) symmetrises and drops self loops; E is a sequence of <<u, v>>.           *)
EXTENDS Integers, FiniteSets, Sequences
Nodes(n) == 0..(n - 1)
Nbr(E, u) == ({E[i][2] : i \in {j \in 1..Len(E) : E[j][1] = u}} \cup {E[i][1] : i \in {j \in 1..Len(E) : E[j][2] = u}}) \ {u}
EdgeSet(n, E) == UNION {{{u, v} : v \in Nbr(E, u) \cap Nodes(n)} : u \in Nodes(n)}
\* components of the graph restricted to node set V with edge set F (set of 2-element sets)
RECURSIVE Grow(_, _, _)
Grow(V, F, S) == LET T == S \cup {v \in V : \E u \in S : {u, v} \in F} IN IF T = S THEN S ELSE Grow(V, F, T)
Comps(V, F) == {Grow(V, F, {v}) : v \in V}
NumComps(V, F) == Cardinality(Comps(V, F))
Within(V, F) == {e \in F : e \subseteq V}
Articulation(n, E) == LET V == Nodes(n) F == EdgeSet(n, E) IN
   {v \in V : NumComps(V \ {v}, Within(V \ {v}, F)) > NumComps(V, F) - (IF \A e \in F : v \notin e THEN 1 ELSE 0)}
Bridges(n, E) == LET V == Nodes(n) F == EdgeSet(n, E) IN {e \in F : NumComps(V, F \ {e}) > NumComps(V, F)}
\* k-core: largest fixpoint of "every node has at least k neighbours inside"
RECURSIVE Peel(_, _, _)
Peel(V, F, k) == LET W == {v \in V : Cardinality({u \in V : {u, v} \in F}) >= k} IN IF W = V THEN V ELSE Peel(W, F, k)
KCore(n, E, k) == Peel(Nodes(n), EdgeSet(n, E), k)
CoreNumber(n, E, v) == LET ks == {k \in 0..n : v \in KCore(n, E, k)} IN CHOOSE k \in ks : \A j \in ks : j <= k
\* floor(num * 10^6 / den) for den > 0 by long division (keeps every product below 2^31 when den < 2*10^6)
Dec6(num, den) == LET a == IF num >= 0 THEN num ELSE -num
                      q0 == a \div den  r0 == a % den
                      q1 == (r0 * 1000) \div den  r1 == (r0 * 1000) % den
                      q2 == (r1 * 1000) \div den
                      v == q0 * 1000000 + q1 * 1000 + q2
                  IN IF num >= 0 THEN v ELSE -v
\* modularity of a partition (set of sets) with resolution r/s:  sum_c [ e_c/m - (r/s) (deg_c / 2m)^2 ]
\*   = sum_c [ 4 m s e_c - r deg_c^2 ] / (4 m^2 s)
Deg(F, v) == Cardinality({e \in F : v \in e})
SumSet(S, f(_)) == LET RECURSIVE G(_)
                       G(T) == IF T = {} THEN 0 ELSE LET x == CHOOSE y \in T : TRUE IN f(x) + G(T \ {x})
                   IN G(S)
ModNum(n, E, P, r, s) == LET F == EdgeSet(n, E) m == Cardinality(F)
                             term(c) == LET dc == SumSet(c, LAMBDA v : Deg(F, v)) IN 4 * m * s * Cardinality(Within(c, F)) - r * dc * dc
                         IN SumSet(P, term)
ModDen(n, E, r, s) == LET m == Cardinality(EdgeSet(n, E)) IN 4 * m * m * s
========================================================================
