CONSTANT N = 4
CONSTANT Alg = "lowlink"
CONSTANT Bug = "strict_ap_test"
SPECIFICATION Spec
INVARIANT LowFinal
INVARIANT PeelFinal
INVARIANT BridgeTwin
CHECK_DEADLOCK FALSE
