---------------------------- MODULE GpTrace ----------------------------
(* Batch validation for articulation_points, bridges, kcore_decomposition, kcore, pagerank,  *)
(* louvain (C15).  Graph: n nodes, E = sequence of <<u, v>> meaning "v is listed as a         *)
(* neighbour of u" (lists may be asymmetric, duplicated, contain self loops).                 *)
EXTENDS GpDefs, TLC, Json, IOUtils
Batch == JsonDeserialize(IOEnv.TRACE_FILE)
VARIABLES tid, l, ok, why
vars == <<tid, l, ok, why>>
T == Batch[tid]
E == T.edges
n == T.n
ToSet(s) == {s[i] : i \in 1..Len(s)}
Init == tid \in 1..Len(Batch) /\ l = 1 /\ ok = TRUE /\ why = ""
Abs(x) == IF x < 0 THEN -x ELSE x
\* ---- pagerank on the directed multigraph given by E (duplicates count, self loops count)
Out(u) == Cardinality({i \in 1..Len(E) : E[i][1] = u})
SumSeq(f(_), k) == LET RECURSIVE G(_)
                       G(i) == IF i > k THEN 0 ELSE f(i) + G(i + 1)
                   IN G(1)
PrCheck(e) ==
  LET S == 1000000
      s == e.scores                       \* s[v+1] = round(score * 10^6)
      p == e.dp  q == e.dq                \* damping = p / q
      dang == SumSeq(LAMBDA i : IF Out(i - 1) = 0 THEN s[i] ELSE 0, n)
      R(v) == SumSeq(LAMBDA i : IF E[i][2] = v THEN s[E[i][1] + 1] \div Out(E[i][1]) ELSE 0, Len(E))
      terms(v) == Cardinality({i \in 1..Len(E) : E[i][2] = v})
      resid(v) == Abs(s[v + 1] * q * n - ((q - p) * S + p * n * R(v) + p * dang))
      slack(v) == q * n * (e.tol6 * n + n + 2) + p * n * (terms(v) + 1)
  IN IF \E i \in 1..n : s[i] < 0 THEN "PageRank.negative_score"
     ELSE IF Abs(SumSeq(LAMBDA i : s[i], n) - S) > n + 1 THEN "PageRank.scores_do_not_sum_to_one"
     ELSE IF e.status = "MAX_ITER" THEN ""
     ELSE IF e.status # "OPTIMAL" THEN "Return.unexpected_status"
     ELSE IF \E v \in Nodes(n) : resid(v) > slack(v) THEN "PageRank.equation_residual_above_tolerance"
     ELSE ""
LouvainCheck(e) ==
  LET P == {ToSet(e.comms[i]) : i \in 1..Len(e.comms)}
      num == ModNum(n, E, P, e.rp, e.rq)  den == ModDen(n, E, e.rp, e.rq)
  IN IF e.status # "OPTIMAL" THEN "Return.unexpected_status"
     ELSE IF \E i \in 1..Len(e.comms) : e.comms[i] = <<>> THEN "Louvain.empty_community"
     ELSE IF Cardinality(P) # Len(e.comms) \/ \E a, b \in P : a # b /\ a \cap b # {} THEN "Louvain.communities_overlap"
     ELSE IF UNION P # Nodes(n) THEN "Louvain.not_a_partition_of_the_nodes"
     ELSE IF den = 0 THEN (IF e.mod6 # 0 THEN "Louvain.modularity_mismatch" ELSE "")
     ELSE IF Abs(e.mod6 - Dec6(num, den)) > 2 THEN "Louvain.modularity_mismatch"
     ELSE ""
Check(e) ==
  IF e.e = "raise" THEN "Raise." \o e.what
  ELSE IF e.e = "noreturn" THEN "NoReturn"
  ELSE IF e.fn = "articulation" THEN (IF ToSet(e.nodes) # Articulation(n, E) \/ Len(e.nodes) # Cardinality(ToSet(e.nodes)) THEN "Articulation.wrong_set" ELSE "")
  ELSE IF e.fn = "bridges" THEN
       (IF \E i \in 1..Len(e.edges) : e.edges[i][1] >= e.edges[i][2] THEN "Bridges.not_canonical_order"
        ELSE IF {{e.edges[i][1], e.edges[i][2]} : i \in 1..Len(e.edges)} # Bridges(n, E) THEN "Bridges.wrong_set"
        ELSE IF Len(e.edges) # Cardinality(Bridges(n, E)) THEN "Bridges.duplicate" ELSE "")
  ELSE IF e.fn = "kcore_decomposition" THEN
       (IF {e.cores[i][1] : i \in 1..Len(e.cores)} # Nodes(n) \/ Len(e.cores) # n THEN "KCore.not_every_node"
        ELSE IF \E i \in 1..Len(e.cores) : e.cores[i][2] # CoreNumber(n, E, e.cores[i][1]) THEN "KCore.wrong_core_number"
        ELSE IF n > 0 /\ e.maxcore # (CHOOSE m \in {CoreNumber(n, E, v) : v \in Nodes(n)} : \A v \in Nodes(n) : CoreNumber(n, E, v) <= m) THEN "KCore.objective_is_not_max_core"
        ELSE "")
  ELSE IF e.fn = "kcore" THEN (IF ToSet(e.nodes) # {v \in Nodes(n) : CoreNumber(n, E, v) >= e.k} THEN "KCore.wrong_k_core" ELSE "")
  ELSE IF e.fn = "pagerank" THEN PrCheck(e)
  ELSE LouvainCheck(e)
Step == /\ ok /\ l <= Len(T.events) /\ l' = l + 1 /\ UNCHANGED tid
        /\ LET w == Check(T.events[l]) IN IF w = "" THEN UNCHANGED <<ok, why>> ELSE ok' = FALSE /\ why' = w
Spec == Init /\ [][Step]_vars
Report == (l = Len(T.events) + 1 \/ ~ok) => PrintT(ToJson([tid |-> tid, ok |-> ok, why |-> why, l |-> l, div |-> {}]))
=========================================================================
