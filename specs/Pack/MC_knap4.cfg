CONSTANT NI = 4
CONSTANT VMax = 2
CONSTANT WMax = 3
CONSTANT CapMax = 5
CONSTANT Alg = "knapdp"
CONSTANT Bug = "none"
SPECIFICATION Spec
INVARIANT KnapFinal
INVARIANT LoadsOK
INVARIANT FitFinal
CHECK_DEADLOCK FALSE
