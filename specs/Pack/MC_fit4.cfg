CONSTANT NI = 4
CONSTANT VMax = 0
CONSTANT WMax = 3
CONSTANT CapMax = 4
CONSTANT Alg = "fit"
CONSTANT Bug = "none"
SPECIFICATION Spec
INVARIANT KnapFinal
INVARIANT LoadsOK
INVARIANT FitFinal
CHECK_DEADLOCK FALSE
