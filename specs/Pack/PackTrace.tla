---------------------------- MODULE PackTrace ----------------------------
(* Batch validation of solve_knapsack and solve_bin_pack (C16); values / weights / sizes /      *)
(* capacity are integers in units of 1/scale (inputs are decimals with <= 2 digits).            *)
EXTENDS PackDefs, TLC, Json, IOUtils
Batch == JsonDeserialize(IOEnv.TRACE_FILE)
VARIABLES tid, l, ok, why, wit
vars == <<tid, l, ok, why, wit>>
T == Batch[tid]
Init == tid \in 1..Len(Batch) /\ l = 1 /\ ok = TRUE /\ why = "" /\ wit = {}
ToSet(s) == {s[i] : i \in 1..Len(s)}
KnapCheck(e) ==
  LET S == {e.items[i] + 1 : i \in 1..Len(e.items)} n == Len(T.values) IN
  IF e.status \notin {"OPTIMAL", "FEASIBLE"} THEN "Return.unexpected_status"
  ELSE IF \E i \in 1..Len(e.items) : e.items[i] < 0 \/ e.items[i] >= n THEN "Knapsack.index_out_of_range"
  ELSE IF Cardinality(S) # Len(e.items) THEN "Knapsack.item_selected_twice"
  ELSE IF ~Fits(T.weights, T.capacity, S) THEN "Knapsack.over_capacity"
  ELSE IF ~e.exact \/ e.obj # SumOver(S, LAMBDA i : T.values[i]) THEN "Knapsack.objective_is_not_sum_of_values"
  ELSE IF e.status = "OPTIMAL" /\ T.integral /\ e.obj # KnapOpt(T.values, T.weights, T.capacity, e.minimize) THEN "Knapsack.optimal_but_better_subset_exists"
  ELSE ""
BinCheck(e) ==
  LET n == Len(T.sizes) a == e.assignment k == e.k
      load(bn) == SumOver({i \in 1..n : a[i] = bn}, LAMBDA i : T.sizes[i])
      opt == BinOpt(T.sizes, T.capacity)
      total == SumOver(1..n, LAMBDA i : T.sizes[i])
  IN IF e.status \notin {"OPTIMAL", "FEASIBLE"} THEN "Return.unexpected_status"
     ELSE IF Len(a) # n THEN "BinPack.not_every_item_assigned"
     ELSE IF ~e.exact THEN "BinPack.objective_not_an_integer"
     ELSE IF n > 0 /\ ToSet(a) # 0..(k - 1) THEN "BinPack.bins_not_numbered_0_to_k_minus_1"
     ELSE IF \E bn \in 0..(k - 1) : load(bn) > T.capacity THEN "BinPack.bin_over_capacity"
     ELSE IF k < CeilDiv(total, T.capacity) THEN "BinPack.below_volume_bound"
     ELSE IF k < opt THEN "BinPack.fewer_bins_than_possible"
     ELSE IF e.decreasing /\ 9 * k > 11 * opt + 6 THEN "BinPack.decreasing_variant_exceeds_11_9_guarantee"
     ELSE IF e.status = "OPTIMAL" /\ k # opt THEN "BinPack.optimal_but_not_minimal"
     ELSE ""
\* witness predicates of known findings
ZeroCapacityWithFreeItems == T.kind = "knap" /\ T.capacity = 0 /\ \E i \in 1..Len(T.values) : T.weights[i] = 0 /\ T.values[i] > 0
Check(e) == IF e.e = "raise" THEN "Raise." \o e.what ELSE IF e.e = "noreturn" THEN "NoReturn"
            ELSE IF T.kind = "knap" THEN KnapCheck(e) ELSE BinCheck(e)
Step == /\ ok /\ l <= Len(T.events) /\ l' = l + 1 /\ UNCHANGED tid
        /\ LET w == Check(T.events[l]) IN
           IF w = "" THEN UNCHANGED <<ok, why, wit>>
           ELSE ok' = FALSE /\ why' = w /\ wit' = (IF ZeroCapacityWithFreeItems THEN {"ZeroCapacityWithFreeItems"} ELSE {})
Spec == Init /\ [][Step]_vars
Report == (l = Len(T.events) + 1 \/ ~ok) => PrintT(ToJson([tid |-> tid, ok |-> ok, why |-> why, l |-> l, wit |-> wit, div |-> {}]))
==========================================================================
