CONSTANT NI = 3
CONSTANT VMax = 2
CONSTANT WMax = 2
CONSTANT CapMax = 4
CONSTANT Alg = "knapdp"
CONSTANT Bug = "none"
SPECIFICATION Spec
INVARIANT KnapFinal
INVARIANT LoadsOK
INVARIANT FitFinal
CHECK_DEADLOCK FALSE
