CONSTANT NI = 5
CONSTANT VMax = 0
CONSTANT WMax = 4
CONSTANT CapMax = 6
CONSTANT Alg = "fit"
CONSTANT Bug = "none"
SPECIFICATION Spec
INVARIANT KnapFinal
INVARIANT LoadsOK
INVARIANT FitFinal
CHECK_DEADLOCK FALSE
