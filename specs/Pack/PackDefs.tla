---------------------------- MODULE PackDefs ----------------------------
(* Knapsack and bin packing, declaratively, on integer (scaled decimal) data.                 *)
EXTENDS Integers, FiniteSets, Sequences
SumOver(S, f(_)) == LET RECURSIVE G(_)
                        G(T) == IF T = {} THEN 0 ELSE LET x == CHOOSE y \in T : TRUE IN f(x) + G(T \ {x})
                    IN G(S)
\* knapsack: best total value over subsets within capacity (maximise, or minimise when minimize)
Fits(w, cap, S) == SumOver(S, LAMBDA i : w[i]) <= cap
KnapOpt(v, w, cap, minimize) ==
  LET vals == {SumOver(S, LAMBDA i : v[i]) : S \in {T \in SUBSET (1..Len(v)) : Fits(w, cap, T)}}
  IN IF minimize THEN CHOOSE m \in vals : \A x \in vals : m <= x ELSE CHOOSE m \in vals : \A x \in vals : m >= x
\* bin packing: minimum number of bins, by recursive placement with symmetry breaking (item i may open at most one new bin)
RECURSIVE MinBinsFrom(_, _, _, _)
MinBinsFrom(sz, cap, i, loads) ==          \* loads: sequence of current bin loads
  IF i > Len(sz) THEN Len(loads)
  ELSE LET opts == {MinBinsFrom(sz, cap, i + 1, [loads EXCEPT ![b] = @ + sz[i]]) : b \in {k \in 1..Len(loads) : loads[k] + sz[i] <= cap}}
                   \cup {MinBinsFrom(sz, cap, i + 1, Append(loads, sz[i]))}
       IN CHOOSE m \in opts : \A x \in opts : m <= x
BinOpt(sz, cap) == IF Len(sz) = 0 THEN 0 ELSE MinBinsFrom(sz, cap, 1, <<>>)
CeilDiv(a, b) == (a + b - 1) \div b
=========================================================================
