---------------------------- MODULE PackAlgs ----------------------------
(* Design specs for C16 over ALL small instances (chosen in Init):                            *)
(*  Alg = "knapdp": the 0/1 knapsack DP of knapsack.py transcribed - one row per item, in     *)
(*        place from high to low capacity, keep table, backtracking from the full capacity;   *)
(*        theorem: the backtracked subset fits, has value dp[cap], and dp[cap] = KnapOpt.     *)
(*  Alg = "fit"   : first-fit / best-fit placement over bin loads, items in given order or    *)
(*        in decreasing size order with ties broken nondeterministically; invariants: no bin  *)
(*        overfull, every item placed once; decreasing variants within (11 OPT + 6) / 9.      *)
EXTENDS PackDefs, TLC
CONSTANTS NI, VMax, WMax, CapMax, Alg, Bug
VARIABLES v, w, cap, row, dp, keep, sel, loads, assign, todo, mode, done
vars == <<v, w, cap, row, dp, keep, sel, loads, assign, todo, mode, done>>
Items == 1..NI
Init == /\ v \in [Items -> 0..VMax] /\ w \in [Items -> (IF Alg = "fit" THEN 1 ELSE 0)..WMax]
        /\ cap \in (IF Alg = "fit" THEN WMax ELSE 0)..CapMax
        /\ row = 1 /\ dp = [c \in 0..CapMax |-> 0] /\ keep = [i \in Items |-> {}] /\ sel = {}
        /\ loads = <<>> /\ assign = [i \in Items |-> 0] /\ todo = Items
        /\ mode \in (IF Alg = "fit" THEN {"ff", "bf", "ffd", "bfd"} ELSE {"dp"}) /\ done = FALSE
KeepIn == UNCHANGED <<v, w, cap>>
\* ---- knapsack DP: process item `row` for capacities cap down to w[row], in place
RECURSIVE RowUpdate(_, _, _, _)
RowUpdate(d, kp, i, c) == IF c < w[i] THEN <<d, kp>>
                          ELSE IF d[c - w[i]] + v[i] > d[c]
                               THEN RowUpdate([d EXCEPT ![c] = d[c - w[i]] + v[i]], kp \cup {c}, i, c - 1)
                               ELSE RowUpdate(d, kp, i, c - 1)
\* the Bug iterates capacities upwards (an item may then be used twice)
RECURSIVE RowUpdateUp(_, _, _, _)
RowUpdateUp(d, kp, i, c) == IF c > cap THEN <<d, kp>>
                            ELSE IF c >= w[i] /\ d[c - w[i]] + v[i] > d[c]
                                 THEN RowUpdateUp([d EXCEPT ![c] = d[c - w[i]] + v[i]], kp \cup {c}, i, c + 1)
                                 ELSE RowUpdateUp(d, kp, i, c + 1)
DpRow == /\ Alg = "knapdp" /\ ~done /\ row <= NI
         /\ LET r == IF Bug = "ascending_capacity_loop" THEN RowUpdateUp(dp, {}, row, 0) ELSE RowUpdate(dp, {}, row, cap)
            IN dp' = r[1] /\ keep' = [keep EXCEPT ![row] = r[2]]
         /\ row' = row + 1 /\ UNCHANGED <<sel, loads, assign, todo, mode, done>> /\ KeepIn
RECURSIVE Back(_, _, _)
Back(i, c, acc) == IF i = 0 THEN acc ELSE IF c \in keep[i] THEN Back(i - 1, c - w[i], acc \cup {i}) ELSE Back(i - 1, c, acc)
DpDone == /\ Alg = "knapdp" /\ ~done /\ row > NI /\ sel' = Back(NI, cap, {}) /\ done' = TRUE
          /\ UNCHANGED <<row, dp, keep, loads, assign, todo, mode>> /\ KeepIn
\* ---- first fit / best fit
Place == /\ Alg = "fit" /\ ~done /\ todo # {}
         /\ \E i \in todo :
              /\ (mode \in {"ffd", "bfd"} => \A j \in todo : w[j] <= w[i])
              /\ (mode \in {"ff", "bf"} => \A j \in todo : i <= j)
              /\ LET fit == {b \in 1..Len(loads) : loads[b] + w[i] <= cap}
                     pick == IF fit = {} THEN Len(loads) + 1
                             ELSE IF mode \in {"ff", "ffd"} THEN CHOOSE b \in fit : \A k \in fit : b <= k
                             ELSE CHOOSE b \in fit : \A k \in fit : loads[b] > loads[k] \/ (loads[b] = loads[k] /\ b <= k)
                 IN /\ loads' = IF pick > Len(loads) THEN Append(loads, w[i]) ELSE [loads EXCEPT ![pick] = @ + w[i]]
                    /\ assign' = [assign EXCEPT ![i] = pick]
              /\ todo' = todo \ {i}
         /\ UNCHANGED <<row, dp, keep, sel, mode, done>> /\ KeepIn
FitDone == Alg = "fit" /\ ~done /\ todo = {} /\ done' = TRUE /\ UNCHANGED <<row, dp, keep, sel, loads, assign, todo, mode>> /\ KeepIn
Next == DpRow \/ DpDone \/ Place \/ FitDone
Spec == Init /\ [][Next]_vars
Vs == [i \in 1..NI |-> v[i]]
Ws == [i \in 1..NI |-> w[i]]
KnapFinal == (Alg = "knapdp" /\ done) =>
               /\ Fits(Ws, cap, sel) /\ SumOver(sel, LAMBDA i : v[i]) = dp[cap] /\ dp[cap] = KnapOpt(Vs, Ws, cap, FALSE)
LoadsOK == Alg = "fit" => \A b \in 1..Len(loads) : loads[b] <= cap /\ loads[b] = SumOver({i \in Items : assign[i] = b}, LAMBDA i : w[i])
FitFinal == (Alg = "fit" /\ done) =>
              LET k == Len(loads) opt == BinOpt(Ws, cap) IN
              /\ k >= opt /\ k >= CeilDiv(SumOver(Items, LAMBDA i : w[i]), cap)
              /\ (mode \in {"ffd", "bfd"} => 9 * k <= 11 * opt + 6)
              /\ (k = 1 => opt = 1)
=========================================================================
