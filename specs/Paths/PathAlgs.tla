---------------------------- MODULE PathAlgs ----------------------------
(* Design-level transition systems of the path solvers (DESIGN §5 C11), over ALL weighted    *)
(* digraphs on N nodes with weights in WSet (absent edge = NoEdge), chosen in Init:          *)
(*   Alg = "label"  : label-setting search (dijkstra / astar with consistent heuristic):     *)
(*                    Expand any open node of minimal g; invariant: closed => g = Dist       *)
(*   Alg = "bf"     : Bellman-Ford rounds with in-place sweeps + detection round             *)
(*   Alg = "fw"     : Floyd-Warshall k-loop; negative diagonal <=> negative cycle            *)
EXTENDS GraphDefs, TLC
CONSTANTS N, WSet, Alg, Bug
NoEdge == 99
WNeg == {-1, 0, 2}
WNeg2 == {-2, -1, 1, 3}
WPos == {0, 2}
WNegS == {-1, 1}
WPos3 == {0, 1, 3}
Pairs == Nodes(N) \X Nodes(N)
VARIABLES wt, g, closed, k, done
vars == <<wt, g, closed, k, done>>
\* edge sequence in lexicographic pair order
RECURSIVE EdgeSeq(_, _)
EdgeSeq(W, i) == IF i >= N * N THEN <<>>
                 ELSE LET u == i \div N  v == i % N
                      IN (IF W[<<u, v>>] = NoEdge THEN <<>> ELSE << <<u, v, W[<<u, v>>]>> >>) \o EdgeSeq(W, i + 1)
E == EdgeSeq(wt, 0)
Src == 0
Dist == BF(N, E, Src)

Init == /\ wt \in [Pairs -> WSet \cup {NoEdge}]
        /\ done = FALSE /\ closed = {} /\ k = 0
        /\ g = IF Alg = "fw" THEN [p \in Pairs |-> IF p[1] = p[2] THEN Min2(0, IF wt[p] = NoEdge THEN INF ELSE wt[p])
                                                  ELSE IF wt[p] = NoEdge THEN INF ELSE wt[p]]
               ELSE Start(N, Src)

\* ---- label setting
Open == {u \in Nodes(N) : u \notin closed /\ g[u] < INF}
Expand(u) ==
  /\ Alg = "label" /\ ~done /\ u \in Open
  /\ (Bug = "expand_any" \/ \A x \in Open : g[u] <= g[x])
  /\ closed' = closed \cup {u}
  /\ g' = [v \in Nodes(N) |-> IF v \notin closed /\ v # u /\ wt[<<u, v>>] # NoEdge /\ g[u] + wt[<<u, v>>] < g[v]
                               THEN g[u] + wt[<<u, v>>] ELSE g[v]]
  /\ UNCHANGED <<wt, k, done>>
FinishLabel == Alg = "label" /\ ~done /\ Open = {} /\ done' = TRUE /\ UNCHANGED <<wt, g, closed, k>>

\* ---- Bellman-Ford: n-1 sweeps (early exit when nothing changes), then the detection sweep
BfRound == /\ Alg = "bf" /\ ~done /\ k < N - 1
           /\ LET d == Sweep(g, E, 1) IN
              /\ g' = d
              /\ k' = IF d = g THEN N ELSE k + 1          \* early break
           /\ UNCHANGED <<wt, closed, done>>
BfDetect == /\ Alg = "bf" /\ ~done /\ k >= N - 1
            /\ done' = TRUE
            /\ closed' = IF Sweep(g, E, 1) # g /\ Bug # "no_detection_round" THEN {-1} ELSE {}      \* {-1} encodes the UNBOUNDED verdict
            /\ UNCHANGED <<wt, g, k>>

\* ---- Floyd-Warshall: one step = the complete (i, j) double loop for pivot k, in place
RECURSIVE FwSweep(_, _, _)
FwSweep(d, kk, idx) == IF idx >= N * N THEN d
                       ELSE LET i == idx \div N  j == idx % N
                                via == IF d[<<i, kk>>] < INF /\ d[<<kk, j>>] < INF THEN d[<<i, kk>>] + d[<<kk, j>>] ELSE INF
                            IN FwSweep(IF via < d[<<i, j>>] THEN [d EXCEPT ![<<i, j>>] = via] ELSE d, kk, idx + 1)
FwStep == /\ Alg = "fw" /\ ~done /\ k < N
          /\ g' = FwSweep(g, k, 0) /\ k' = k + 1
          /\ UNCHANGED <<wt, closed, done>>
FwDone == Alg = "fw" /\ ~done /\ k = N /\ done' = TRUE /\ UNCHANGED <<wt, g, closed, k>>

Next == (\E u \in Nodes(N) : Expand(u)) \/ FinishLabel \/ BfRound \/ BfDetect \/ FwStep \/ FwDone
Spec == Init /\ [][Next]_vars

\* ---- properties
NonNeg == \A p \in Pairs : wt[p] = NoEdge \/ wt[p] >= 0
\* label setting (only claimed for non-negative weights): a closed node carries its true distance
ClosedExact == (Alg = "label" /\ NonNeg) => \A u \in closed : g[u] = Dist[u]
LabelFinal == (Alg = "label" /\ NonNeg /\ done) => g = Dist
\* Bellman-Ford: verdict UNBOUNDED iff a negative cycle is reachable; otherwise distances exact (twin: simple paths)
BfFinal == (Alg = "bf" /\ done) =>
              /\ (closed = {-1}) = NegCycleReachable(N, E, Src)
              /\ (closed = {}) => \A t \in Nodes(N) : g[t] = SimplePathMin(E, Src, t, {Src})
\* Floyd-Warshall: negative diagonal iff a negative cycle exists anywhere; otherwise all-pairs exact
FwFinal == (Alg = "fw" /\ done) =>
              /\ (\E i \in Nodes(N) : g[<<i, i>>] < 0) = NegCycleAnywhere(N, E)
              /\ (~NegCycleAnywhere(N, E)) => \A s, t \in Nodes(N) : g[<<s, t>>] = SimplePathMin(E, s, t, {s})
\* oracle twin on the whole scope: BF = minimum over simple paths when no negative cycle is reachable
TwinOK == ~NegCycleReachable(N, E, Src) => \A t \in Nodes(N) : Dist[t] = SimplePathMin(E, Src, t, {Src})
==========================================================================
