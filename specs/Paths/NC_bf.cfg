CONSTANT N = 3
CONSTANT WSet <- WNegS
CONSTANT Alg = "bf"
CONSTANT Bug = "no_detection_round"
SPECIFICATION Spec
INVARIANT ClosedExact
INVARIANT LabelFinal
INVARIANT BfFinal
INVARIANT FwFinal
CHECK_DEADLOCK FALSE
