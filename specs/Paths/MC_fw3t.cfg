CONSTANT N = 3
CONSTANT WSet <- WNeg
CONSTANT Alg = "fw"
CONSTANT Bug = "none"
SPECIFICATION Spec
INVARIANT ClosedExact
INVARIANT LabelFinal
INVARIANT BfFinal
INVARIANT FwFinal
CHECK_DEADLOCK FALSE
