---------------------------- MODULE SettleSteps ----------------------------
(* Step-level validation of the label-setting searches (C11): dijkstra, astar (consistent       *)
(* heuristic) and bfs.  One hook event per node taken off the frontier ("settled"), carrying     *)
(* the label the search holds for it at that moment.  The design spec PathAlgs proves for the    *)
(* label-setting transition system: a label is FINAL when its node is settled (it equals the      *)
(* shortest distance from the source), no node is settled twice, and - for dijkstra and bfs -     *)
(* nodes are settled in non-decreasing order of their labels.  Distances are decided inside TLC   *)
(* by the Bellman-Ford definition of GraphDefs on the exact (scaled) integer weights.             *)
(* Diagnostic (`div`); what the calls return is decided by PathsTrace.                             *)
EXTENDS GraphDefs, TLC, Json, IOUtils
Batch == JsonDeserialize(IOEnv.TRACE_FILE)
VARIABLES tid, l, div
vars == <<tid, l, div>>
T == Batch[tid]
Init == tid \in 1..Len(Batch) /\ l = 1 /\ div = {}
Guards(c) ==
  LET E == IF c.solver = "bfs" THEN Unit(T.edges) ELSE T.edges
      d == BF(T.n, E, c.src)
      k == Len(c.settled)
      nodes == {c.settled[i][1] : i \in 1..k}
  IN (IF \A i \in 1..k : c.settled[i][1] \in Nodes(T.n) THEN {} ELSE {c.solver \o ":Settle.unknown_node"})
     \cup (IF Cardinality(nodes) = k THEN {} ELSE {c.solver \o ":Settle.node_settled_twice"})
     \cup (IF ~c.exact THEN {}
           ELSE (IF \A i \in 1..k : c.settled[i][1] \in Nodes(T.n) => c.settled[i][2] = d[c.settled[i][1]] THEN {}
                 ELSE {c.solver \o ":Settle.label_is_not_the_shortest_distance"})
                \cup (IF c.solver = "astar" \/ \A i \in 1..(k - 1) : c.settled[i][2] <= c.settled[i + 1][2] THEN {}
                      ELSE {c.solver \o ":Settle.order_not_by_label"}))
     \cup (IF k >= 1 /\ c.settled[1][1] # c.src THEN {c.solver \o ":Settle.source_not_first"} ELSE {})
Step == /\ l <= Len(T.calls) /\ l' = l + 1 /\ UNCHANGED tid
        /\ div' = div \cup Guards(T.calls[l])
Spec == Init /\ [][Step]_vars
Report == (l = Len(T.calls) + 1) =>
            PrintT(ToJson([tid |-> tid, ok |-> TRUE, why |-> "", l |-> l, div |-> div, calls |-> Len(T.calls),
                           settled |-> LET RECURSIVE S(_) S(i) == IF i > Len(T.calls) THEN 0 ELSE Len(T.calls[i].settled) + S(i + 1) IN S(1)]))
============================================================================
