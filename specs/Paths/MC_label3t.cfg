CONSTANT N = 3
CONSTANT WSet <- WPos3
CONSTANT Alg = "label"
CONSTANT Bug = "none"
SPECIFICATION Spec
INVARIANT ClosedExact
INVARIANT LabelFinal
INVARIANT BfFinal
INVARIANT FwFinal
CHECK_DEADLOCK FALSE
