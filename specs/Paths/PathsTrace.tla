---------------------------- MODULE PathsTrace ----------------------------
(* Batch validation of the shortest-path solvers (C11).                                      *)
(*  kind "graph": one weighted digraph (n, edges <<u,v,w>>), events = answers of every       *)
(*       applicable solver to queries on it; all checked against the Bellman-Ford            *)
(*       definition of distance (GraphDefs), negative-cycle predicates and path validity.    *)
(*  kind "grid" : astar_grid on a 2-D grid; distances live in Z[sqrt 2] as pairs <<a, b>>    *)
(*       (a straight + b diagonal units), compared exactly.                                  *)
EXTENDS GraphDefs, TLC, Json, IOUtils
Batch == JsonDeserialize(IOEnv.TRACE_FILE)
VARIABLES tid, l, dd, ok, why
vars == <<tid, l, dd, ok, why>>
T == Batch[tid]
ToSet(s) == {s[i] : i \in 1..Len(s)}
Fail(w) == ok' = FALSE /\ why' = w
Pass == UNCHANGED <<ok, why>>

\* =============================== grids, Z[sqrt2] arithmetic =================================
\* sign of a + b*sqrt2 for integers a, b
Sgn2(a, b) == IF a >= 0 /\ b >= 0 THEN (IF a = 0 /\ b = 0 THEN 0 ELSE 1)
              ELSE IF a <= 0 /\ b <= 0 THEN -1
              ELSE IF a > 0 THEN (IF a * a > 2 * b * b THEN 1 ELSE -1)      \* a > 0 > b
              ELSE (IF 2 * b * b > a * a THEN 1 ELSE -1)                     \* b > 0 > a
Less2(p, q) == IF p[1] >= INF THEN FALSE ELSE IF q[1] >= INF THEN TRUE ELSE Sgn2(p[1] - q[1], p[2] - q[2]) < 0
Inf2 == <<INF, 0>>
Rows(t) == Len(Batch[t].grid)
Cols(t) == Len(Batch[t].grid[1])
Free(t, r, c) == r \in 1..Rows(t) /\ c \in 1..Cols(t) /\ Batch[t].grid[r][c] \notin ToSet(Batch[t].blocked)
Dirs(t) == IF Batch[t].directions = 8 THEN {<<dr, dc>> : dr \in {-1, 0, 1}, dc \in {-1, 0, 1}} \ {<<0, 0>>}
           ELSE {<<-1, 0>>, <<1, 0>>, <<0, -1>>, <<0, 1>>}
CellCost(t, r, c) == LET v == Batch[t].grid[r][c]
                         m == {i \in 1..Len(Batch[t].costs) : Batch[t].costs[i][1] = v}
                     IN IF m = {} THEN 1 ELSE Batch[t].costs[CHOOSE i \in m : TRUE][2]
StepCost(t, dr, dc, r, c) == IF dr # 0 /\ dc # 0 THEN <<0, CellCost(t, r, c)>> ELSE <<CellCost(t, r, c), 0>>
Add2(p, q) == <<p[1] + q[1], p[2] + q[2]>>
\* one in-place sweep over all cells in row-major order, relaxing every cell from its neighbours
RECURSIVE GridSweep(_, _, _)
GridSweep(t, d, idx) ==
  IF idx >= Rows(t) * Cols(t) THEN d
  ELSE LET r == (idx \div Cols(t)) + 1  c == (idx % Cols(t)) + 1 IN
       IF ~Free(t, r, c) THEN GridSweep(t, d, idx + 1)
       ELSE LET cand == {Add2(d[<<r - dir[1], c - dir[2]>>], StepCost(t, dir[1], dir[2], r, c)) :
                           dir \in {x \in Dirs(t) : Free(t, r - x[1], c - x[2]) /\ d[<<r - x[1], c - x[2]>>][1] < INF}}
                best == IF cand = {} THEN Inf2 ELSE CHOOSE m \in cand : \A x \in cand : ~Less2(x, m)
            IN GridSweep(t, IF Less2(best, d[<<r, c>>]) THEN [d EXCEPT ![<<r, c>>] = best] ELSE d, idx + 1)
RECURSIVE GridFix(_, _, _)
GridFix(t, d, fuel) == LET e == GridSweep(t, d, 0) IN IF e = d \/ fuel = 0 THEN e ELSE GridFix(t, e, fuel - 1)
GridDist(t) == LET s == Batch[t].start
                   d0 == [p \in (1..Rows(t)) \X (1..Cols(t)) |-> IF p = <<s[1] + 1, s[2] + 1>> THEN <<0, 0>> ELSE Inf2]
               IN GridFix(t, d0, Rows(t) * Cols(t))

\* =============================== graphs ====================================================
Sym(E) == E \o [i \in 1..Len(E) |-> <<E[i][2], E[i][1], E[i][3]>>]
AllDist(t) == [s \in Nodes(Batch[t].n) |-> BF(Batch[t].n, Batch[t].edges, s)]
Init == /\ tid \in 1..Len(Batch) /\ l = 1 /\ ok = TRUE /\ why = ""
        /\ dd = IF Batch[tid].kind = "grid" THEN GridDist(tid) ELSE AllDist(tid)
E == T.edges
NearestGoal(src, goals) == LET ds == {dd[src][x] : x \in goals} IN
                           IF ds = {} THEN INF ELSE CHOOSE m \in ds : \A x \in ds : m <= x
NegReach(src) == Sweep(dd[src], E, 1) # dd[src]

\* weighted single-pair style answers (dijkstra, astar, *_edges with target, bellman_ford with target)
CheckTarget(e, unweighted) ==
  LET goals == ToSet(e.goals)
      EE == IF unweighted THEN Unit(E) ELSE E
      best == IF unweighted THEN (LET h == Hops(T.n, E, e.src) ds == {h[x] : x \in goals}
                                  IN IF ds = {} THEN INF ELSE CHOOSE m \in ds : \A x \in ds : m <= x)
              ELSE NearestGoal(e.src, goals)
      cut == e.max_cost >= 0
  IN IF e.status = "MAX_ITER" THEN (IF e.max_iter >= 0 THEN "" ELSE "Return.max_iter_without_an_iteration_limit")
     ELSE IF e.status = "UNBOUNDED" THEN
          (IF e.solver # "bellman_ford" THEN "Return.unexpected_status" ELSE IF ~NegReach(e.src) THEN "Unbounded.no_negative_cycle_reachable" ELSE "")
     ELSE IF e.solver = "bellman_ford" /\ NegReach(e.src) THEN "BellmanFord.negative_cycle_not_reported"
     ELSE IF e.status = "INFEASIBLE" THEN
          (IF e.has_path THEN "Infeasible.with_path"
           ELSE IF best < INF /\ ~(cut /\ best > e.max_cost) THEN "Infeasible.but_target_reachable" ELSE "")
     \* a cost limit means: targets farther than max_cost are not found (INFEASIBLE); it never licenses a wrong distance
     ELSE IF cut /\ e.exact /\ e.obj > e.max_cost THEN "Distance.beyond_max_cost_reported"
     ELSE IF e.status \notin {"OPTIMAL", "FEASIBLE"} THEN "Return.unexpected_status"
     ELSE IF ~e.has_path \/ Len(e.path) = 0 THEN "Path.missing"
     ELSE IF e.path[1] # e.src THEN "Path.does_not_start_at_source"
     ELSE IF e.path[Len(e.path)] \notin goals THEN "Path.does_not_end_at_goal"
     ELSE IF \E i \in 1..Len(e.path) : e.path[i] \notin Nodes(T.n) THEN "Path.unknown_node"
     ELSE IF ~IsPath(E, e.path) THEN "Path.uses_missing_edge"
     ELSE IF e.solver \in {"dfs", "dfs_edges"} THEN (IF e.obj # Len(e.path) - 1 THEN "Path.objective_is_not_its_length" ELSE "")
     ELSE IF ~e.exact THEN "Distance.not_representable"
     ELSE IF ~PathWeightOK(EE, e.path, e.obj) THEN "Path.weights_do_not_sum_to_objective"
     ELSE IF e.obj # best THEN "Distance.not_shortest"
     ELSE ""

\* all-distances answers: sequence of <<node, dist>>
CheckAll(e) ==
  LET D == dd[e.src]
      given == {e.dists[i][1] : i \in 1..Len(e.dists)}
  IN IF e.status = "UNBOUNDED" THEN (IF e.solver # "bellman_ford" THEN "Return.unexpected_status" ELSE IF ~NegReach(e.src) THEN "Unbounded.no_negative_cycle_reachable" ELSE "")
     ELSE IF e.solver = "bellman_ford" /\ NegReach(e.src) THEN "BellmanFord.negative_cycle_not_reported"
     ELSE IF ~e.exact THEN "Distance.not_representable"
     ELSE IF given # {x \in Nodes(T.n) : D[x] < INF} \/ Len(e.dists) # Cardinality(given) THEN "AllDistances.wrong_reachable_set"
     ELSE IF \E i \in 1..Len(e.dists) : e.dists[i][2] # D[e.dists[i][1]] THEN "Distance.not_shortest"
     ELSE ""
CheckReach(e) ==
  IF ToSet(e.nodes) # {x \in Nodes(T.n) : dd[e.src][x] < INF} \/ Len(e.nodes) # Cardinality(ToSet(e.nodes)) THEN "Reach.wrong_reachable_set" ELSE ""
CheckFW(e) ==
  LET EE == IF e.directed THEN E ELSE Sym(E)
      neg == NegCycleAnywhere(T.n, EE)
      D(s) == IF e.directed THEN dd[s] ELSE BF(T.n, EE, s)
  IN IF e.status = "UNBOUNDED" THEN (IF ~neg THEN "Unbounded.no_negative_cycle" ELSE "")
     ELSE IF neg THEN "FloydWarshall.negative_cycle_not_reported"
     ELSE IF ~e.exact THEN "Distance.not_representable"
     ELSE IF \E s \in Nodes(T.n) : \E t \in Nodes(T.n) : e.matrix[s + 1][t + 1] # (IF D(s)[t] < INF THEN D(s)[t] ELSE -1) THEN "Distance.not_shortest"
     ELSE ""

GraphCheck(e) ==
  IF e.e = "raise" THEN "Raise." \o e.what
  ELSE IF e.e = "noreturn" THEN "NoReturn"
  ELSE IF e.mode = "target" THEN CheckTarget(e, e.solver \in {"bfs", "dfs", "bfs_edges", "dfs_edges"})
  ELSE IF e.mode = "all" THEN CheckAll(e)
  ELSE IF e.mode = "reach" THEN CheckReach(e)
  ELSE CheckFW(e)

\* grid answers
Cell(p) == <<p[1] + 1, p[2] + 1>>
RECURSIVE PathPair(_, _)
PathPair(p, i) == IF i >= Len(p) THEN <<0, 0>>
                  ELSE Add2(StepCost(tid, p[i + 1][1] - p[i][1], p[i + 1][2] - p[i][2], p[i + 1][1] + 1, p[i + 1][2] + 1), PathPair(p, i + 1))
Abs(x) == IF x < 0 THEN -x ELSE x
GridCheck(e) ==
  LET g == Cell(T.goal) best == dd[g] IN
  IF e.e = "raise" THEN "Raise." \o e.what
  ELSE IF e.e = "noreturn" THEN "NoReturn"
  ELSE IF e.status = "MAX_ITER" THEN ""
  ELSE IF e.status = "INFEASIBLE" THEN (IF best[1] < INF THEN "Infeasible.but_target_reachable" ELSE "")
  ELSE IF e.status # "OPTIMAL" THEN "Return.unexpected_status"
  ELSE IF Len(e.path) = 0 \/ e.path[1] # T.start THEN "Path.does_not_start_at_source"
  ELSE IF e.path[Len(e.path)] # T.goal THEN "Path.does_not_end_at_goal"
  ELSE IF \E i \in 1..Len(e.path) : ~Free(tid, e.path[i][1] + 1, e.path[i][2] + 1) /\ i > 1 THEN "Path.through_blocked_or_outside_cell"
  ELSE IF \E i \in 1..(Len(e.path) - 1) : <<e.path[i + 1][1] - e.path[i][1], e.path[i + 1][2] - e.path[i][2]>> \notin Dirs(tid) THEN "Path.cells_not_adjacent"
  ELSE LET pp == PathPair(e.path, 1) IN
       IF Abs(e.obj6 - (pp[1] * 1000000 + pp[2] * 1414214)) > pp[2] + 2 THEN "Path.weights_do_not_sum_to_objective"
       ELSE IF Less2(best, pp) \/ Less2(pp, best) THEN "Distance.not_shortest"
       ELSE ""

Step == /\ ok /\ l <= Len(T.events) /\ l' = l + 1 /\ UNCHANGED <<tid, dd>>
        /\ LET w == IF T.kind = "grid" THEN GridCheck(T.events[l]) ELSE GraphCheck(T.events[l])
           IN IF w = "" THEN Pass ELSE Fail(T.events[l].solver \o ":" \o w)
Spec == Init /\ [][Step]_vars
Report == (l = Len(T.events) + 1 \/ ~ok) => PrintT(ToJson([tid |-> tid, ok |-> ok, why |-> why, l |-> l, div |-> {}]))
============================================================================
