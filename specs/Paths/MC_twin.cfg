CONSTANT N = 3
CONSTANT WSet <- WNeg
CONSTANT Alg = "none"
CONSTANT Bug = "none"
SPECIFICATION Spec
INVARIANT TwinOK
CHECK_DEADLOCK FALSE
