CONSTANT N = 3
CONSTANT WSet <- WPos
CONSTANT Alg = "label"
CONSTANT Bug = "none"
SPECIFICATION Spec
INVARIANT ClosedExact
INVARIANT LabelFinal
INVARIANT BfFinal
INVARIANT FwFinal
CHECK_DEADLOCK FALSE
