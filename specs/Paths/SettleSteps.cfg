SPECIFICATION Spec
INVARIANT Report
CHECK_DEADLOCK FALSE
