---------------------------- MODULE BackendsTrace ----------------------------
(* C12: observable equivalence of the python / rust / default back-ends.                      *)
(* One trace = one call of an accelerated function with the same arguments under each         *)
(* back-end.  The driver projects each Result onto its *meaning* (status; distances, distance *)
(* map or matrix; reachable set; total weight; component partition; scores) - paths and       *)
(* orders are NOT compared here: each side is validated separately against the functional     *)
(* specification of its family (PathsTrace, MstTrace, SccTrace, GpTrace), which is what       *)
(* "valid for the same problem" means.  Here: the three meanings must be pairwise Same.       *)
EXTENDS Integers, Sequences, FiniteSets, TLC, Json, IOUtils
Batch == JsonDeserialize(IOEnv.TRACE_FILE)
VARIABLES tid, l, ok, why
vars == <<tid, l, ok, why>>
T == Batch[tid]
Init == tid \in 1..Len(Batch) /\ l = 1 /\ ok = TRUE /\ why = ""
Abs(x) == IF x < 0 THEN -x ELSE x
\* PageRank scores (scaled by 10^6) agree within the convergence tolerance (each side is within n*tol of the fixpoint)
Close(a, b, slack) == Len(a) = Len(b) /\ \A i \in 1..Len(a) : Abs(a[i] - b[i]) <= slack
Same(fn, x, y) ==
  IF x.e # "ret" \/ y.e # "ret" THEN x.e = y.e /\ (x.e = "raise" => x.what = y.what)
  ELSE /\ x.status = y.status
       /\ IF fn = "pagerank_edges" THEN Close(x.scores, y.scores, 2 * T.n * T.tol6 + 4)
          ELSE x.meaning = y.meaning
Step == /\ ok /\ l <= 1 /\ l' = l + 1 /\ UNCHANGED tid
        /\ LET r == T.rets IN
           IF ~Same(T.fn, r[1], r[2]) THEN ok' = FALSE /\ why' = T.fn \o ":python_vs_rust_differ"
           ELSE IF ~Same(T.fn, r[2], r[3]) THEN ok' = FALSE /\ why' = T.fn \o ":rust_vs_default_differ"
           ELSE IF ~Same(T.fn, r[1], r[3]) THEN ok' = FALSE /\ why' = T.fn \o ":python_vs_default_differ"
           ELSE UNCHANGED <<ok, why>>
Spec == Init /\ [][Step]_vars
Report == (l = 2 \/ ~ok) => PrintT(ToJson([tid |-> tid, ok |-> ok, why |-> why, l |-> l, div |-> {}]))
===============================================================================
