CONSTANT R = 3
CONSTANT C = 2
SPECIFICATION Spec
CHECK_DEADLOCK FALSE
