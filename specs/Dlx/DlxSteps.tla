---------------------------- MODULE DlxSteps ----------------------------
(* Step-level validation of the dancing-links operations inside solve_exact_cover (C07).      *)
(* One trace = one call.  The driver wraps the module functions _build_links, _cover and      *)
(* _uncover (no change to the library) and, after each of them, walks the real link structure *)
(* and logs what it finds: which column headers are still linked into their horizontal ring,  *)
(* the rows met walking each column downwards and upwards, and the size counters.             *)
(* The spec keeps the matrix-level state that DlxLinks.tla proves the link structure refines  *)
(* (theorem Refines):                                                                          *)
(*    active  the set of columns whose header is linked                                        *)
(*    ring    for every column the set of rows still linked into it                            *)
(*    stack   the covers not yet undone, each with the state before it                         *)
(* and the two operations                                                                       *)
(*    Cover(c)    c leaves `active`; every row of ring[c] leaves every other column's ring     *)
(*    Uncover(c)  only the most recent cover can be undone, and undoing restores exactly the   *)
(*                state before it (theorem Inverse of DlxLinks)                                 *)
(* Guards (diagnostic, `div`; what C07 states is decided on the returned covers by DlxTrace):   *)
(* the logged structure equals the spec state after every operation, walking up gives the       *)
(* reverse of walking down (Rings), rows stay in increasing order, size counters equal ring     *)
(* lengths, covers and uncovers nest, and a search that ran to completion leaves the            *)
(* structure as built.                                                                           *)
EXTENDS Integers, FiniteSets, Sequences, TLC, Json, IOUtils
Batch == JsonDeserialize(IOEnv.TRACE_FILE)
VARIABLES tid, l, active, ring, stack, div
vars == <<tid, l, active, ring, stack, div>>
T == Batch[tid]
M == T.matrix
Rows == 1..Len(M)
Cols == 1..T.ncols
ToSet(s) == {s[i] : i \in 1..Len(s)}
Rev(s) == [i \in 1..Len(s) |-> s[Len(s) + 1 - i]]
Sorted(s) == \A i \in 1..(Len(s) - 1) : s[i] < s[i + 1]
Built == [j \in Cols |-> {r \in Rows : M[r][j] = 1}]
Init == /\ tid \in 1..Len(Batch) /\ l = 1
        /\ active = 1..Batch[tid].ncols
        /\ ring = [j \in 1..Batch[tid].ncols |-> {r \in 1..Len(Batch[tid].matrix) : Batch[tid].matrix[r][j] = 1}]
        /\ stack = <<>> /\ div = {}
\* comparison of a logged snapshot with a spec state
Mismatch(s, act, rg, where) ==
  (IF ToSet(s.active) = act THEN {} ELSE {where \o ".linked_headers_differ_from_spec"})
  \cup (IF \A j \in Cols : ToSet(s.down[j]) = rg[j] THEN {} ELSE {where \o ".column_ring_differs_from_spec"})
  \cup (IF \A j \in Cols : s.up[j] = Rev(s.down[j]) THEN {} ELSE {"Rings.up_walk_is_not_reverse_of_down_walk"})
  \cup (IF \A j \in Cols : Sorted(s.down[j]) THEN {} ELSE {"Rings.rows_out_of_order"})
  \cup (IF \A j \in Cols : s.sizes[j] = Len(s.down[j]) THEN {} ELSE {"Size.counter_differs_from_ring_length"})
  \cup (IF s.broken THEN {"Rings.walk_does_not_return_to_header"} ELSE {})
CoverRing(c) == [j \in Cols |-> IF j = c THEN ring[j] ELSE ring[j] \ ring[c]]
Step == /\ l <= Len(T.steps) /\ l' = l + 1 /\ UNCHANGED tid
        /\ LET s == T.steps[l] IN
           CASE s.op = "build" ->
                  /\ UNCHANGED <<active, ring, stack>>
                  /\ div' = div \cup Mismatch(s, active, ring, "Build")
             [] s.op = "cover" ->
                  /\ active' = active \ {s.c}
                  /\ ring' = CoverRing(s.c)
                  /\ stack' = Append(stack, [c |-> s.c, active |-> active, ring |-> ring])
                  /\ div' = div \cup (IF s.c \in active THEN {} ELSE {"Cover.column_already_covered"})
                                \cup Mismatch(s, active \ {s.c}, CoverRing(s.c), "Cover")
             [] s.op = "uncover" ->
                  IF stack = <<>> \/ stack[Len(stack)].c # s.c
                  THEN /\ UNCHANGED <<active, ring, stack>>
                       /\ div' = div \cup {"Uncover.not_the_most_recent_cover"}
                  ELSE LET top == stack[Len(stack)] IN
                       /\ active' = top.active /\ ring' = top.ring
                       /\ stack' = SubSeq(stack, 1, Len(stack) - 1)
                       /\ div' = div \cup Mismatch(s, top.active, top.ring, "Uncover")
             [] OTHER -> UNCHANGED <<active, ring, stack, div>>
Spec == Init /\ [][Step]_vars
\* a search that was not cut short (find_all without limits, or no cover found) must undo everything
Final == IF T.complete /\ (stack # <<>> \/ active # Cols \/ ring # Built) THEN {"Finish.structure_not_restored"} ELSE {}
Report == (l = Len(T.steps) + 1) =>
            PrintT(ToJson([tid |-> tid, ok |-> TRUE, why |-> "", l |-> l, div |-> div \cup Final, ops |-> Len(T.steps), depth |-> Len(stack)]))
=========================================================================
