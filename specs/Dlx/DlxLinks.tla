---------------------------- MODULE DlxLinks ----------------------------
(* Implementation-level model of the dancing-links structure of solvor/dlx.py.                 *)
(* Nodes: 0 = root of the primary header ring, 1..C = column headers, C+1 = root of the         *)
(* secondary header ring, C+2.. = one node per 1-entry in row-major order.                      *)
(* State: L, R, U, D (functions on nodes), S (column sizes).  Build, Cover and Uncover are      *)
(* transcribed from _build_links / _cover / _uncover.  TLC explores, for ALL R x C matrices and  *)
(* primary/secondary splits, every LIFO sequence of covers of still-linked columns and checks:   *)
(*   Inverse   : Uncover(c) after Cover(c) restores the structure exactly (nested, LIFO)         *)
(*   Rings     : header rings and column lists are consistent doubly linked cycles               *)
(*   Refines   : the rows reachable in the vertical list of an uncovered column are exactly the  *)
(*               rows with a 1 there that have no 1 in any covered column (AlgX's `Avail`),      *)
(*               and S[c] is their number.                                                       *)
EXTENDS Integers, FiniteSets, Sequences, TLC
CONSTANTS NR, NCOL, Bug
Cols == 1..NCOL
SecRoot == NCOL + 1
VARIABLES M, prim, L, Rt, U, D, S, stack
vars == <<M, prim, L, Rt, U, D, S, stack>>
Cells == {<<r, c>> \in (1..NR) \X Cols : M[r][c] = 1}
\* node id of cell (r, c): C + 1 + its rank in row-major order
CellId(r, c) == NCOL + 1 + Cardinality({p \in Cells : p[1] < r \/ (p[1] = r /\ p[2] <= c)})
NodeIds == 0..(NCOL + 1 + Cardinality(Cells))
ColOf(n) == (CHOOSE p \in Cells : CellId(p[1], p[2]) = n)[2]
RowOf(n) == (CHOOSE p \in Cells : CellId(p[1], p[2]) = n)[1]
IsCell(n) == n > NCOL + 1
\* ---- build (transcription of _build_links)
PrimCols == {c \in Cols : prim[c]}
SecCols == Cols \ PrimCols
Ring(root, members) ==    \* left/right links of a header ring through `members` in increasing order
  LET seq == LET RECURSIVE F(_, _)
                 F(T, acc) == IF T = {} THEN acc ELSE LET x == CHOOSE y \in T : \A z \in T : y <= z IN F(T \ {x}, Append(acc, x))
             IN <<root>> \o F(members, <<>>)
      n == Len(seq)
  IN [right |-> [i \in 1..n |-> <<seq[i], seq[(i % n) + 1]>>], left |-> [i \in 1..n |-> <<seq[(i % n) + 1], seq[i]>>]]
Build ==
  LET pr == Ring(0, PrimCols)  sr == Ring(SecRoot, SecCols)
      RowCells(r) == {c \in Cols : M[r][c] = 1}
      ColCells(c) == {r \in 1..NR : M[r][c] = 1}
      NextInRow(r, c) == LET later == {x \in RowCells(r) : x > c} IN
                         IF later = {} THEN CHOOSE x \in RowCells(r) : \A y \in RowCells(r) : x <= y ELSE CHOOSE x \in later : \A y \in later : x <= y
      PrevInRow(r, c) == LET earlier == {x \in RowCells(r) : x < c} IN
                         IF earlier = {} THEN CHOOSE x \in RowCells(r) : \A y \in RowCells(r) : x >= y ELSE CHOOSE x \in earlier : \A y \in earlier : x >= y
      DownOf(r, c) == LET below == {x \in ColCells(c) : x > r} IN IF below = {} THEN c ELSE CellId(CHOOSE x \in below : \A y \in below : x <= y, c)
      UpOf(r, c) == LET above == {x \in ColCells(c) : x < r} IN IF above = {} THEN c ELSE CellId(CHOOSE x \in above : \A y \in above : x >= y, c)
      hdrR(n) == LET ps == {i \in 1..Len(pr.right) : pr.right[i][1] = n} ss == {i \in 1..Len(sr.right) : sr.right[i][1] = n}
                 IN IF ps # {} THEN pr.right[CHOOSE i \in ps : TRUE][2] ELSE IF ss # {} THEN sr.right[CHOOSE i \in ss : TRUE][2] ELSE n
      hdrL(n) == LET ps == {i \in 1..Len(pr.left) : pr.left[i][1] = n} ss == {i \in 1..Len(sr.left) : sr.left[i][1] = n}
                 IN IF ps # {} THEN pr.left[CHOOSE i \in ps : TRUE][2] ELSE IF ss # {} THEN sr.left[CHOOSE i \in ss : TRUE][2] ELSE n
  IN [L |-> [n \in NodeIds |-> IF IsCell(n) THEN CellId(RowOf(n), PrevInRow(RowOf(n), ColOf(n))) ELSE hdrL(n)],
      R |-> [n \in NodeIds |-> IF IsCell(n) THEN CellId(RowOf(n), NextInRow(RowOf(n), ColOf(n))) ELSE hdrR(n)],
      U |-> [n \in NodeIds |-> IF IsCell(n) THEN UpOf(RowOf(n), ColOf(n))
                               ELSE IF n \in Cols THEN (IF ColCells(n) = {} THEN n ELSE CellId(CHOOSE x \in ColCells(n) : \A y \in ColCells(n) : x >= y, n)) ELSE n],
      D |-> [n \in NodeIds |-> IF IsCell(n) THEN DownOf(RowOf(n), ColOf(n))
                               ELSE IF n \in Cols THEN (IF ColCells(n) = {} THEN n ELSE CellId(CHOOSE x \in ColCells(n) : \A y \in ColCells(n) : x <= y, n)) ELSE n],
      S |-> [c \in Cols |-> Cardinality(ColCells(c))]]
Init == /\ M \in [1..NR -> [Cols -> {0, 1}]] /\ prim \in [Cols -> BOOLEAN]
        /\ L = Build.L /\ Rt = Build.R /\ U = Build.U /\ D = Build.D /\ S = Build.S /\ stack = <<>>
\* ---- cover (transcription of _cover): unlink header, then for each row in the column (downwards) unlink its other nodes
RECURSIVE CoverRow(_, _, _)          \* st = [U, D, S]; walk right from `cur` until back at `start`
CoverRow(st, start, cur) ==
  IF cur = start THEN st
  ELSE CoverRow([U |-> [st.U EXCEPT ![st.D[cur]] = st.U[cur]], D |-> [st.D EXCEPT ![st.U[cur]] = st.D[cur]],
                 S |-> [st.S EXCEPT ![ColOf(cur)] = @ - 1]], start, Rt[cur])
RECURSIVE CoverCol(_, _, _)
CoverCol(st, c, node) == IF node = c THEN st ELSE CoverCol(CoverRow(st, node, Rt[node]), c, st.D[node])
RECURSIVE UncoverRow(_, _, _)        \* walk left, re-linking
UncoverRow(st, start, cur) ==
  IF cur = start THEN st
  ELSE UncoverRow([U |-> [st.U EXCEPT ![st.D[cur]] = cur], D |-> [st.D EXCEPT ![st.U[cur]] = cur],
                   S |-> [st.S EXCEPT ![ColOf(cur)] = @ + 1]], start, L[cur])
RECURSIVE UncoverCol(_, _, _)
UncoverCol(st, c, node) == IF node = c THEN st
                           ELSE UncoverCol(UncoverRow(st, node, IF Bug = "uncover_walks_right" THEN Rt[node] ELSE L[node]), c, st.U[node])
Linked(c) == Rt[L[c]] = c               \* header still in its ring
Cover(c) == /\ Linked(c)
            /\ LET st == CoverCol([U |-> U, D |-> D, S |-> S], c, D[c]) IN
               /\ U' = st.U /\ D' = st.D /\ S' = st.S
               /\ L' = [L EXCEPT ![Rt[c]] = L[c]] /\ Rt' = [Rt EXCEPT ![L[c]] = Rt[c]]
            /\ stack' = Append(stack, [col |-> c, L |-> L, R |-> Rt, U |-> U, D |-> D, S |-> S])
            /\ UNCHANGED <<M, prim>>
Uncover == /\ stack # <<>>
           /\ LET c == stack[Len(stack)].col
                  st == UncoverCol([U |-> U, D |-> D, S |-> S], c, U[c]) IN
              /\ U' = st.U /\ D' = st.D /\ S' = st.S
              /\ L' = [L EXCEPT ![Rt[c]] = c] /\ Rt' = [Rt EXCEPT ![L[c]] = c]
           /\ stack' = SubSeq(stack, 1, Len(stack) - 1) /\ UNCHANGED <<M, prim>>
Next == (\E c \in Cols : Cover(c)) \/ Uncover
Spec == Init /\ [][Next]_vars
\* ---- properties
Inverse == [][ Uncover => LET top == stack[Len(stack)] IN L' = top.L /\ Rt' = top.R /\ U' = top.U /\ D' = top.D /\ S' = top.S ]_vars
Covered == {stack[i].col : i \in 1..Len(stack)}
AvailRows == {r \in 1..NR : \A c \in Covered : M[r][c] = 0}
RECURSIVE Walk(_, _, _)
Walk(f, start, cur) == IF cur = start THEN {} ELSE {cur} \cup Walk(f, start, f[cur])
Refines == \A c \in Cols \ Covered :
             LET nodes == Walk(D, c, D[c]) IN
             /\ {RowOf(n) : n \in nodes} = {r \in AvailRows : M[r][c] = 1}
             /\ S[c] = Cardinality(nodes)
             /\ Walk(U, c, U[c]) = nodes
Rings == /\ Walk(Rt, 0, Rt[0]) = {c \in PrimCols : c \notin Covered} /\ Walk(L, 0, L[0]) = Walk(Rt, 0, Rt[0])
         /\ Walk(Rt, SecRoot, Rt[SecRoot]) = {c \in SecCols : c \notin Covered}
=========================================================================
