---------------------------- MODULE DlxDefs ----------------------------
(* Exact cover, declaratively.  A matrix is a sequence of rows, each a sequence of 0/1;      *)
(* prim[c] says whether column c is primary.                                                 *)
EXTENDS Integers, FiniteSets, Sequences
RowsOf(M) == 1..Len(M)
ColsOf(M) == IF Len(M) = 0 THEN {} ELSE 1..Len(M[1])
ColSet(M, r) == {c \in ColsOf(M) : M[r][c] = 1}
Prim(M, prim) == {c \in 1..Len(prim) : prim[c]}        \* columns are those prim speaks about (a matrix without rows still has columns)
Useful(M, prim) == {r \in RowsOf(M) : ColSet(M, r) \cap Prim(M, prim) # {}}
Hits(M, S, c) == Cardinality({r \in S : M[r][c] = 1})
IsCover(M, prim, S) == /\ S \subseteq Useful(M, prim)
                       /\ \A c \in 1..Len(prim) : IF prim[c] THEN Hits(M, S, c) = 1 ELSE Hits(M, S, c) <= 1
Covers(M, prim) == {S \in SUBSET Useful(M, prim) : IsCover(M, prim, S)}
\* twin: a cover is a set of pairwise disjoint useful rows whose union contains every primary column
Disjoint(M, S) == \A r1, r2 \in S : r1 # r2 => ColSet(M, r1) \cap ColSet(M, r2) = {}
CoversTwin(M, prim) == {S \in SUBSET RowsOf(M) :
                          /\ Disjoint(M, S)
                          /\ Prim(M, prim) \subseteq UNION {ColSet(M, r) : r \in S}
                          /\ \A r \in S : ColSet(M, r) \cap Prim(M, prim) # {}}
=========================================================================
