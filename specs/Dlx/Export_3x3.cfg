CONSTANT R = 3
CONSTANT C = 3
SPECIFICATION Spec
CHECK_DEADLOCK FALSE
