---------------------------- MODULE DlxExport ----------------------------
(* Spec -> code: every 0/1 matrix of the design scope with every primary/secondary split,    *)
(* exported with the number of covers the specification expects.                             *)
EXTENDS DlxDefs, SequencesExt, TLC, Json, IOUtils
CONSTANTS R, C
Mats == [1..R -> [1..C -> {0, 1}]]
Prims == [1..C -> BOOLEAN]
Case(M, p) == [matrix |-> M, prim |-> p, ncovers |-> Cardinality(Covers(M, p))]
ASSUME ndJsonSerialize(IOEnv.EXPORT_FILE, SetToSeq({Case(M, p) : M \in Mats, p \in Prims}))
VARIABLE x
Init == x = 0
Next == UNCHANGED x
Spec == Init /\ [][Next]_x
===========================================================================
