CONSTANT NR = 2
CONSTANT NCOL = 3
CONSTANT Bug = "uncover_walks_right"
SPECIFICATION Spec
INVARIANT Refines
INVARIANT Rings
PROPERTY Inverse
CHECK_DEADLOCK FALSE
