CONSTANT R = 2
CONSTANT C = 2
SPECIFICATION Spec
CHECK_DEADLOCK FALSE
