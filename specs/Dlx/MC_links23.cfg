CONSTANT NR = 2
CONSTANT NCOL = 3
CONSTANT Bug = "none"
SPECIFICATION Spec
INVARIANT Refines
INVARIANT Rings
PROPERTY Inverse
CHECK_DEADLOCK FALSE
