CONSTANT R = 2
CONSTANT C = 3
SPECIFICATION Spec
CHECK_DEADLOCK FALSE
