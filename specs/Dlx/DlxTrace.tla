---------------------------- MODULE DlxTrace ----------------------------
(* Batch validation of solve_exact_cover results (C07).  One trace = one input; events are   *)
(* the returns of several calls on it (find_all on/off, max_solutions, max_iter, repeated).  *)
EXTENDS DlxDefs, TLC, Json, IOUtils
Batch == JsonDeserialize(IOEnv.TRACE_FILE)
VARIABLES tid, l, covers, ok, why
vars == <<tid, l, covers, ok, why>>
T == Batch[tid]
ToSet(s) == {s[i] : i \in 1..Len(s)}
Init == /\ tid \in 1..Len(Batch) /\ l = 1 /\ ok = TRUE /\ why = ""
        /\ covers = Covers(Batch[tid].matrix, Batch[tid].prim)
Fail(w) == ok' = FALSE /\ why' = w
Pass == UNCHANGED <<ok, why>>
M == T.matrix
\* rows are reported 0-based by the implementation
SolSet(s) == {s[i] + 1 : i \in 1..Len(s)}
BadSol(s) == IF \E i \in 1..Len(s) : s[i] < 0 \/ s[i] >= Len(M) THEN "Selection.row_index_out_of_range"
             ELSE IF Cardinality(SolSet(s)) # Len(s) THEN "Selection.row_listed_twice"
             ELSE IF SolSet(s) \notin covers THEN
                  (IF \E c \in 1..Len(T.prim) : T.prim[c] /\ Hits(M, SolSet(s), c) # 1 THEN "Selection.primary_column_not_covered_exactly_once"
                   ELSE IF \E c \in ColsOf(M) : ~T.prim[c] /\ Hits(M, SolSet(s), c) > 1 THEN "Selection.secondary_column_covered_twice"
                   ELSE "Selection.row_without_primary_column_selected")
             ELSE ""
Check(e) ==
  LET bad == {i \in 1..Len(e.sols) : BadSol(e.sols[i]) # ""}
      sets == {SolSet(e.sols[i]) : i \in 1..Len(e.sols)}
      cut == e.max_solutions > 0 /\ Len(e.sols) >= e.max_solutions
  IN IF e.e = "raise" THEN "Raise." \o e.what
     ELSE IF e.e = "noreturn" THEN "NoReturn"
     ELSE IF bad # {} THEN BadSol(e.sols[CHOOSE i \in bad : \A j \in bad : i <= j])
     ELSE IF Cardinality(sets) # Len(e.sols) THEN "FindAll.duplicate_selection"
     ELSE IF e.status = "MAX_ITER" THEN ""                        \* cut off by max_iter: only validity
     ELSE IF e.status = "INFEASIBLE" THEN (IF covers # {} THEN "Infeasible.but_a_cover_exists" ELSE IF Len(e.sols) > 0 THEN "Infeasible.with_selection" ELSE "")
     ELSE IF e.status \notin {"OPTIMAL", "FEASIBLE"} THEN "Return.unexpected_status"
     ELSE IF Len(e.sols) = 0 THEN "Return.ok_without_selection"
     ELSE IF ~e.find_all THEN (IF Len(e.sols) # 1 THEN "Return.single_mode_with_many" ELSE "")
     ELSE IF cut THEN ""              \* cut off by max_solutions: only validity; C07 does not fix the status label of a cut-off list
     ELSE IF sets # covers THEN "FindAll.cover_missing"
     ELSE ""
\* a repeated identical call must give the identical answer
SameAsEarlier(e) == \A j \in 1..(l - 1) :
     LET f == T.events[j] IN
     (f.e = "ret" /\ e.e = "ret" /\ f.find_all = e.find_all /\ f.max_solutions = e.max_solutions /\ f.max_iter = e.max_iter)
        => (f.status = e.status /\ f.sols = e.sols)
Step == /\ ok /\ l <= Len(T.events) /\ l' = l + 1 /\ UNCHANGED <<tid, covers>>
        /\ LET e == T.events[l] w == Check(e) IN
           IF w # "" THEN Fail(w)
           ELSE IF e.e = "ret" /\ e.matrix_after # M THEN Fail("Input.matrix_modified")
           ELSE IF ~SameAsEarlier(e) THEN Fail("Repeat.same_call_different_answer")
           ELSE Pass
Spec == Init /\ [][Step]_vars
Report == (l = Len(T.events) + 1 \/ ~ok) =>
            PrintT(ToJson([tid |-> tid, ok |-> ok, why |-> why, l |-> l, ncovers |-> Cardinality(covers), div |-> {}]))
==========================================================================
