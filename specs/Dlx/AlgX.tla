---------------------------- MODULE AlgX ----------------------------
(* Algorithm X as a transition system with an explicit recursion stack (DESIGN §5 C07).      *)
(* The column choice is ANY uncovered primary column (minimum size is only a heuristic) and  *)
(* candidate rows are tried in ANY order; TLC shows that on termination of find_all the set  *)
(* of emitted selections is exactly Covers, each emitted once, for every matrix of the scope *)
(* and every secondary set, whatever the choices.                                            *)
EXTENDS DlxDefs, TLC
CONSTANTS R, C, Bug
VARIABLES M, prim, sel, frames, found, dup, done
vars == <<M, prim, sel, frames, found, dup, done>>

Init == /\ M \in [1..R -> [1..C -> {0, 1}]]
        /\ prim \in [1..C -> BOOLEAN]
        /\ sel = <<>> /\ frames = <<>> /\ found = {} /\ dup = FALSE /\ done = FALSE

SelSet == {sel[i] : i \in 1..Len(sel)}
Covered == UNION {ColSet(M, r) : r \in SelSet}
\* rows still in the links: disjoint from everything selected (cover removes every row that clashes)
Avail == {r \in RowsOf(M) : ColSet(M, r) \cap Covered = {}}
Uncovered == Prim(M, prim) \ Covered
Cands(c) == {r \in Avail : M[r][c] = 1}

AtNode == Len(frames) = Len(sel)          \* entering search(): choose a column or emit
Pop == /\ frames' = SubSeq(frames, 1, Len(frames) - 1)
       /\ IF Len(sel) > 0 /\ Len(frames) - 1 < Len(sel) THEN sel' = SubSeq(sel, 1, Len(sel) - 1) ELSE sel' = sel

Emit == /\ ~done /\ AtNode /\ Uncovered = {}
        /\ dup' = (dup \/ SelSet \in found)
        /\ found' = found \cup {SelSet}
        /\ IF Len(sel) = 0 THEN done' = TRUE /\ UNCHANGED <<sel, frames>>
           ELSE /\ sel' = SubSeq(sel, 1, Len(sel) - 1) /\ UNCHANGED <<frames, done>>
        /\ UNCHANGED <<M, prim>>

\* some uncovered primary column has no candidate row left: dead end (the size-0 prune)
Prune == /\ ~done /\ AtNode /\ Uncovered # {} /\ \E c \in Uncovered : Cands(c) = {}
         /\ IF Len(sel) = 0 THEN done' = TRUE /\ UNCHANGED <<sel, frames>>
            ELSE /\ sel' = SubSeq(sel, 1, Len(sel) - 1) /\ UNCHANGED <<frames, done>>
         /\ UNCHANGED <<M, prim, found, dup>>

Choose == /\ ~done /\ AtNode /\ Uncovered # {} /\ \A c \in Uncovered : Cands(c) # {}
          /\ \E c \in Uncovered :
               frames' = Append(frames, [col |-> c, cands |-> IF Bug = "skip_last_row" /\ Cardinality(Cands(c)) > 1
                                                            THEN Cands(c) \ {CHOOSE r \in Cands(c) : \A q \in Cands(c) : q <= r}
                                                            ELSE Cands(c)])
          /\ UNCHANGED <<M, prim, sel, found, dup, done>>

Select == /\ ~done /\ Len(frames) = Len(sel) + 1 /\ frames[Len(frames)].cands # {}
          /\ \E r \in frames[Len(frames)].cands :
               /\ sel' = Append(sel, r)
               /\ frames' = [frames EXCEPT ![Len(frames)].cands = @ \ {r}]
          /\ UNCHANGED <<M, prim, found, dup, done>>

Backtrack == /\ ~done /\ Len(frames) = Len(sel) + 1 /\ frames[Len(frames)].cands = {}
             /\ frames' = SubSeq(frames, 1, Len(frames) - 1)
             /\ IF Len(sel) = 0 THEN done' = TRUE /\ sel' = sel
                ELSE sel' = SubSeq(sel, 1, Len(sel) - 1) /\ done' = done
             /\ UNCHANGED <<M, prim, found, dup>>

Next == Emit \/ Prune \/ Choose \/ Select \/ Backtrack
Spec == Init /\ [][Next]_vars
FairSpec == Spec /\ WF_vars(Next)

\* ---- properties
PartialDisjoint == Disjoint(M, SelSet)
FoundAreCovers == found \subseteq Covers(M, prim)
NoDup == ~dup
Complete == done => found = Covers(M, prim)
TwinOK == Covers(M, prim) = CoversTwin(M, prim)
NoStuck == ~done => ENABLED Next
Terminates == <>done
=====================================================================
