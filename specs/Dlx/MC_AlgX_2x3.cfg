CONSTANT R = 2
CONSTANT C = 3
CONSTANT Bug = "none"
SPECIFICATION Spec
INVARIANT PartialDisjoint
INVARIANT FoundAreCovers
INVARIANT NoDup
INVARIANT Complete
INVARIANT TwinOK
INVARIANT NoStuck
CHECK_DEADLOCK FALSE
