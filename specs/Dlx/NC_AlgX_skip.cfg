CONSTANT R = 3
CONSTANT C = 3
CONSTANT Bug = "skip_last_row"
SPECIFICATION Spec
INVARIANT PartialDisjoint
INVARIANT FoundAreCovers
INVARIANT NoDup
INVARIANT Complete
INVARIANT TwinOK
INVARIANT NoStuck
CHECK_DEADLOCK FALSE
