CONSTANT NR = 3
CONSTANT NCOL = 3
CONSTANT Bug = "none"
SPECIFICATION Spec
INVARIANT Refines
INVARIANT Rings
PROPERTY Inverse
CHECK_DEADLOCK FALSE
