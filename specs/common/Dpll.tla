---------------------------- MODULE Dpll ----------------------------
(* Propositional oracle over CNFs given as sets of sets of non-zero integers (DIMACS      *)
(* literals).  `Dpll` decides satisfiability by unit propagation + branching; `Rup` is     *)
(* reverse unit propagation; `Entailed` is exact semantic entailment (Rup first because    *)
(* it is linear and succeeds for every 1-UIP clause).  `TTSat` is the independent twin     *)
(* (truth-table enumeration) used to cross-check `Dpll` on complete small scopes.          *)
EXTENDS Integers, FiniteSets

Simplify(cnf, x) == {c \ {-x} : c \in {d \in cnf : x \notin d}}

RECURSIVE Dpll(_)
Dpll(cnf) ==
  IF cnf = {} THEN TRUE
  ELSE IF {} \in cnf THEN FALSE
  ELSE LET units == {c \in cnf : Cardinality(c) = 1} IN
       IF units # {} THEN LET u == CHOOSE c \in units : TRUE
                              x == CHOOSE y \in u : TRUE
                          IN Dpll(Simplify(cnf, x))
       ELSE LET c == CHOOSE d \in cnf : TRUE
                x == CHOOSE y \in c : TRUE
            IN Dpll(Simplify(cnf, x)) \/ Dpll(Simplify(cnf, -x))

RECURSIVE UP(_)
UP(cnf) == IF {} \in cnf THEN {{}}
           ELSE LET units == {c \in cnf : Cardinality(c) = 1} IN
                IF units = {} THEN cnf
                ELSE LET u == CHOOSE c \in units : TRUE
                         x == CHOOSE y \in u : TRUE
                     IN UP(Simplify(cnf, x))

Units(lits) == {{x} : x \in lits}
Rup(cnf, c) == {} \in UP(cnf \cup {{-x} : x \in c})
Entailed(cnf, c) == Rup(cnf, c) \/ ~Dpll(cnf \cup {{-x} : x \in c})

\* a (possibly partial) assignment given as a set of true literals satisfies a clause / cnf
SatBy(T, cnf) == \A c \in cnf : c \cap T # {}
Consistent(T) == \A x \in T : -x \notin T

\* truth-table twin over variables 1..nv
Abs(x) == IF x < 0 THEN -x ELSE x
VarsOf(cnf) == {Abs(x) : x \in UNION cnf}
TotalAsgs(V) == {T \in SUBSET (V \cup {-v : v \in V}) : \A v \in V : (v \in T) # (-v \in T)}
TTSat(cnf) == \E T \in TotalAsgs(VarsOf(cnf)) : SatBy(T, cnf)
======================================================================
