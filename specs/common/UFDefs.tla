---------------------------- MODULE UFDefs ----------------------------
(* Pure operators shared by the UnionFind design spec and its trace spec.                  *)
(* Implementation-level: parent/rank forests with recursive find + path compression and    *)
(* union by rank, transcribed from solvor/utils/data_structures.py.                        *)
(* Abstract level: a partition given as a function element -> block.                       *)
EXTENDS Integers, FiniteSets, Sequences

RECURSIVE Root(_, _)
Root(p, x) == IF p[x] = x THEN x ELSE Root(p, p[x])

RECURSIVE PathTo(_, _)
PathTo(p, x) == IF p[x] = x THEN {} ELSE {x} \cup PathTo(p, p[x])

\* find(x): every node on the path from x to the root (root excluded) is re-pointed at the root
Compress(p, x) == LET r == Root(p, x)
                      pth == PathTo(p, x)
                  IN [e \in DOMAIN p |-> IF e \in pth THEN r ELSE p[e]]

Block(p, e) == {f \in DOMAIN p : Root(p, f) = Root(p, e)}
Abs(p) == [e \in DOMAIN p |-> Block(p, e)]
Roots(p) == {e \in DOMAIN p : p[e] = e}

\* union(x, y) on the implementation state; result record carries the return value
UnionImpl(p, rk, cnt, x, y) ==
  LET p1 == Compress(p, x)
      p2 == Compress(p1, y)
      rx0 == Root(p2, x)
      ry0 == Root(p2, y)
  IN IF rx0 = ry0 THEN [parent |-> p2, rank |-> rk, count |-> cnt, ret |-> FALSE]
     ELSE LET swap == rk[rx0] < rk[ry0]
              rx == IF swap THEN ry0 ELSE rx0
              ry == IF swap THEN rx0 ELSE ry0
          IN [parent |-> [p2 EXCEPT ![ry] = rx],
              rank |-> IF rk[rx] = rk[ry] THEN [rk EXCEPT ![rx] = rk[rx] + 1] ELSE rk,
              count |-> cnt - 1, ret |-> TRUE]

\* abstract partition operations
Merge(part, x, y) == LET m == part[x] \cup part[y]
                     IN [k \in DOMAIN part |-> IF k \in m THEN m ELSE part[k]]
Blocks(part) == {part[k] : k \in DOMAIN part}

\* representation invariants of the forest
Acyclic(p, rk) == \A e \in DOMAIN p : p[e] # e => rk[p[e]] > rk[e]
RECURSIVE Pow2(_)
Pow2(k) == IF k = 0 THEN 1 ELSE 2 * Pow2(k - 1)
RankBound(p, rk) == \A r \in Roots(p) : Pow2(rk[r]) <= Cardinality(Block(p, r))
=======================================================================
