---------------------------- MODULE FenwickDefs ----------------------------
(* Fenwick tree walks transcribed from solvor/utils/data_structures.py (0-based):          *)
(*   build:  for i in 0..n-1: j = i | (i+1); if j < n: tree[j] += tree[i]                  *)
(*   update: while i < n: tree[i] += d; i |= i+1                                          *)
(*   prefix: while i >= 0: total += tree[i]; i = (i & (i+1)) - 1                          *)
EXTENDS Integers, Sequences, Bitwise

RECURSIVE BuildFrom(_, _, _)
BuildFrom(t, i, n) == IF i = n THEN t
                      ELSE LET j == i | (i + 1)
                           IN BuildFrom(IF j < n THEN [t EXCEPT ![j] = t[j] + t[i]] ELSE t, i + 1, n)
Build(arr, n) == BuildFrom(arr, 0, n)

RECURSIVE UpdateT(_, _, _, _)
UpdateT(t, i, d, n) == IF i >= n THEN t ELSE UpdateT([t EXCEPT ![i] = t[i] + d], i | (i + 1), d, n)

RECURSIVE PrefixT(_, _)
PrefixT(t, i) == IF i < 0 THEN 0 ELSE t[i] + PrefixT(t, (i & (i + 1)) - 1)
RangeT(t, lo, hi) == PrefixT(t, hi) - (IF lo > 0 THEN PrefixT(t, lo - 1) ELSE 0)

\* abstract array
RECURSIVE SumTo(_, _)
SumTo(arr, i) == IF i < 0 THEN 0 ELSE arr[i] + SumTo(arr, i - 1)
SumRange(arr, lo, hi) == SumTo(arr, hi) - SumTo(arr, lo - 1)

\* representation invariant: tree[j] is the sum of arr over (j & (j+1)) .. j
RepInv(t, arr, n) == \A j \in 0..(n - 1) : t[j] = SumTo(arr, j) - SumTo(arr, (j & (j + 1)) - 1)
=============================================================================
