---------------------------- MODULE GraphDefs ----------------------------
(* Weighted digraphs as edge sequences <<u, v, w>> over nodes 0..n-1 (parallel edges, self   *)
(* loops, negative weights allowed).  INF is a sentinel larger than any path weight used.    *)
EXTENDS Integers, FiniteSets, Sequences
INF == 100000000
Nodes(n) == 0..(n - 1)
Min2(a, b) == IF a <= b THEN a ELSE b
\* one in-place sweep of Bellman-Ford relaxation over the edge sequence, starting at edge i
RECURSIVE Sweep(_, _, _)
Sweep(d, E, i) == IF i > Len(E) THEN d
                  ELSE LET u == E[i][1] v == E[i][2] w == E[i][3]
                       IN Sweep(IF d[u] < INF /\ d[u] + w < d[v] THEN [d EXCEPT ![v] = d[u] + w] ELSE d, E, i + 1)
RECURSIVE Rounds(_, _, _)
Rounds(d, E, k) == IF k = 0 THEN d ELSE Rounds(Sweep(d, E, 1), E, k - 1)
Start(n, s) == [x \in Nodes(n) |-> IF x = s THEN 0 ELSE INF]
\* distances after n-1 rounds; exact shortest distances when no negative cycle is reachable from s
BF(n, E, s) == Rounds(Start(n, s), E, n - 1)
NegCycleReachable(n, E, s) == Sweep(BF(n, E, s), E, 1) # BF(n, E, s)
Reachable(n, E, s) == {x \in Nodes(n) : BF(n, E, s)[x] < INF}
NegCycleAnywhere(n, E) == \E s \in Nodes(n) : NegCycleReachable(n, E, s)
\* unweighted shadow
Unit(E) == [i \in 1..Len(E) |-> <<E[i][1], E[i][2], 1>>]
Hops(n, E, s) == BF(n, Unit(E), s)

\* paths: sequences of nodes; each consecutive pair must be joined by an edge; PathWeightOK says some choice
\* of parallel edges gives exactly the claimed total (needed because duplicate edges may differ in weight)
HasEdge(E, u, v) == \E i \in 1..Len(E) : E[i][1] = u /\ E[i][2] = v
EdgeWeights(E, u, v) == {E[i][3] : i \in {j \in 1..Len(E) : E[j][1] = u /\ E[j][2] = v}}
IsPath(E, p) == Len(p) >= 1 /\ \A i \in 1..(Len(p) - 1) : HasEdge(E, p[i], p[i + 1])
RECURSIVE PathSums(_, _, _)
PathSums(E, p, i) == IF i >= Len(p) THEN {0}
                     ELSE {w + r : w \in EdgeWeights(E, p[i], p[i + 1]), r \in PathSums(E, p, i + 1)}
PathWeightOK(E, p, total) == total \in PathSums(E, p, 1)

\* twin of BF for graphs without negative cycles: minimum over simple paths (enumerated)
RECURSIVE SimplePathMin(_, _, _, _)
SimplePathMin(E, cur, t, seen) ==
  IF cur = t THEN 0
  ELSE LET outs == {i \in 1..Len(E) : E[i][1] = cur /\ E[i][2] \notin seen}
           vals == {E[i][3] + SimplePathMin(E, E[i][2], t, seen \cup {E[i][2]}) : i \in outs}
           fin == {x \in vals : x < INF \div 2}
       IN IF fin = {} THEN INF ELSE CHOOSE m \in fin : \A x \in fin : m <= x
===========================================================================
