---------------------------- MODULE Lin ----------------------------
(* Exact linear algebra on small integer matrices (sequences of rows): Laplace determinants, *)
(* Cramer solutions as <<num, den>>, sign-safe rational comparison, and the exact LP oracle   *)
(*   min c.x  s.t.  A x <= b, x >= 0    (A: m x n)                                            *)
(* by enumeration of the bases of [A I].  Products stay below 2^31 for the data sizes used    *)
(* (entries in -5..5 up to 3x3, -3..3 up to 4x4).                                             *)
EXTENDS Integers, FiniteSets, Sequences
Minor(M, i, j) == LET n == Len(M) IN
   [r \in 1..(n - 1) |-> [c \in 1..(n - 1) |-> M[IF r < i THEN r ELSE r + 1][IF c < j THEN c ELSE c + 1]]]
RECURSIVE Det(_)
Det(M) == IF Len(M) = 0 THEN 1
          ELSE IF Len(M) = 1 THEN M[1][1]
          ELSE LET n == Len(M)
                   RECURSIVE S(_)
                   S(j) == IF j > n THEN 0
                           ELSE (IF M[1][j] = 0 THEN 0 ELSE (IF j % 2 = 1 THEN 1 ELSE -1) * M[1][j] * Det(Minor(M, 1, j))) + S(j + 1)
               IN S(1)
ReplaceCol(M, j, b) == [r \in 1..Len(M) |-> [c \in 1..Len(M) |-> IF c = j THEN b[r] ELSE M[r][c]]]
Sgn(x) == IF x > 0 THEN 1 ELSE IF x < 0 THEN -1 ELSE 0
Less(p, q) == p[1] * q[2] < q[1] * p[2]            \* rationals <<num, den>> with den > 0
Col(A, m, n, j) == IF j <= n THEN [i \in 1..m |-> A[i][j]] ELSE [i \in 1..m |-> IF i = j - n THEN 1 ELSE 0]
SetToSortedSeq(S) == LET RECURSIVE F(_, _)
                         F(T, acc) == IF T = {} THEN acc ELSE LET x == CHOOSE y \in T : \A z \in T : y <= z IN F(T \ {x}, Append(acc, x))
                     IN F(S, <<>>)
BasisMat(A, m, n, B) == [r \in 1..m |-> [c \in 1..m |-> Col(A, m, n, B[c])[r]]]
\* basic solution of basis B (sorted seq of m column indices of [A I]): d = det, num[k] = numerator of x_{B[k]}
Basic(A, b, m, n, B) == LET M == BasisMat(A, m, n, B)
                            d == Det(M)
                        IN [d |-> d, num |-> IF d = 0 THEN <<>> ELSE [k \in 1..m |-> Det(ReplaceCol(M, k, b))]]
AllBases(m, n) == {SetToSortedSeq(T) : T \in {S \in SUBSET (1..(n + m)) : Cardinality(S) = m}}
IsFeasBasis(A, b, m, n, B) == LET bs == Basic(A, b, m, n, B) IN bs.d # 0 /\ \A k \in 1..m : bs.num[k] * Sgn(bs.d) >= 0
FeasBases(A, b, m, n) == {B \in AllBases(m, n) : IsFeasBasis(A, b, m, n, B)}
Feasible(A, b, m, n) == IF m = 0 THEN TRUE ELSE FeasBases(A, b, m, n) # {}
ObjAt(A, b, c, m, n, B) == LET bs == Basic(A, b, m, n, B)
                               RECURSIVE S(_)
                               S(k) == IF k > m THEN 0 ELSE (IF B[k] <= n THEN c[B[k]] * bs.num[k] ELSE 0) + S(k + 1)
                           IN <<S(1) * Sgn(bs.d), bs.d * Sgn(bs.d)>>
MinObj(A, b, c, m, n) == LET vals == {ObjAt(A, b, c, m, n, B) : B \in FeasBases(A, b, m, n)}
                         IN CHOOSE v \in vals : \A w \in vals : ~Less(w, v)
\* dual of  min c.x, Ax <= b, x >= 0   is   max -b.w, -A^T w <= c, w >= 0, i.e. feasibility of {w >= 0 : -A^T w <= c}
NegT(A, m, n) == [j \in 1..n |-> [i \in 1..m |-> -A[i][j]]]
DualFeasible(A, c, m, n) == IF n = 0 THEN TRUE ELSE Feasible(NegT(A, m, n), c, n, m)
LpStatus(A, b, c, m, n) == IF ~Feasible(A, b, m, n) THEN "INFEASIBLE"
                           ELSE IF ~DualFeasible(A, c, m, n) THEN "UNBOUNDED" ELSE "OPTIMAL"
\* dual optimum  max -b.w  =  -(min b.w over {w >= 0 : -A^T w <= c})
DualOpt(A, b, c, m, n) == LET v == MinObj(NegT(A, m, n), c, b, n, m) IN <<-v[1], v[2]>>
\* floor(|num| * 10^k / den) with sign, by long division in base 1000 (den < 2 * 10^6)
Dec6(num, den) == LET a == IF num >= 0 THEN num ELSE -num
                      q0 == a \div den  r0 == a % den
                      q1 == (r0 * 1000) \div den  r1 == (r0 * 1000) % den
                      q2 == (r1 * 1000) \div den
                      v == q0 * 1000000 + q1 * 1000 + q2
                  IN IF num >= 0 THEN v ELSE -v
====================================================================
