CONSTANT U = 2
CONSTANT CSet <- C3
CONSTANT Bug = "none"
SPECIFICATION Spec
INVARIANT IncFeasible
INVARIANT Cover
INVARIANT OptimalMeansOptimal
INVARIANT InfeasibleMeansNone
INVARIANT NoStuck
CHECK_DEADLOCK FALSE
