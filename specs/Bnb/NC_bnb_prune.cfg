CONSTANT U = 1
CONSTANT CSet <- C3
CONSTANT Bug = "prune_strictly_better_nodes"
SPECIFICATION Spec
INVARIANT IncFeasible
INVARIANT Cover
INVARIANT OptimalMeansOptimal
INVARIANT InfeasibleMeansNone
INVARIANT NoStuck
CHECK_DEADLOCK FALSE
