---------------------------- MODULE Bnb ----------------------------
(* Branch and bound at design level (DESIGN §5 C04) on a 2-variable integer box 0..U x 0..U.  *)
(* The instance is abstract: ANY set F of integer-feasible points and ANY linear objective    *)
(* with coefficients in CSet (chosen in Init).  A node is a box; the LP relaxation is any     *)
(* oracle that (i) says infeasible only if the box has no feasible point, (ii) returns a      *)
(* valid lower bound, (iii) when it returns an integral point, returns the best point of the  *)
(* box.  Heuristic incumbents (warm start, rounding, LNS) may appear at any time but must be  *)
(* feasible.  Invariant Cover: every feasible point strictly better than the incumbent lies   *)
(* in an open box - from which "OPTIMAL means proven optimal" follows.                        *)
EXTENDS Integers, FiniteSets, Sequences, TLC
CONSTANTS U, CSet, Bug
C3 == {-1, 0, 2}
Pts == (0..U) \X (0..U)
VARIABLES F, c, open, inc, status
vars == <<F, c, open, inc, status>>
None == <<-1, -1>>
Obj(x) == c[1] * x[1] + c[2] * x[2]
InBox(x, bx) == bx[1] <= x[1] /\ x[1] <= bx[2] /\ bx[3] <= x[2] /\ x[2] <= bx[4]
FB(bx) == {x \in F : InBox(x, bx)}
Init == /\ F \in SUBSET Pts /\ c \in CSet \X CSet
        /\ open = {<<0, U, 0, U>>} /\ inc = None /\ status = "run"
Better(x) == inc = None \/ Obj(x) < Obj(inc)
Keep == UNCHANGED <<F, c>>
\* a feasible point from a heuristic (warm start, rounding, LNS); kept only if better
Heuristic == /\ status = "run" /\ \E x \in F : Better(x) /\ inc' = x
             /\ UNCHANGED <<open, status>> /\ Keep
\* process a node
NodeInfeasible(bx) == /\ FB(bx) = {} /\ open' = open \ {bx} /\ UNCHANGED <<inc, status>>
MinIn(bx) == CHOOSE m \in {Obj(x) : x \in FB(bx)} : \A y \in FB(bx) : m <= Obj(y)
NodePrune(bx) == /\ inc # None
                 /\ \E lb \in (MinIn(bx) - 2)..MinIn(bx) :          \* any valid LP bound
                      IF Bug = "prune_strictly_better_nodes" THEN lb >= Obj(inc) - 1 ELSE lb >= Obj(inc)
                 /\ open' = open \ {bx} /\ UNCHANGED <<inc, status>>
NodeIntegral(bx) == /\ \E x \in FB(bx) : Obj(x) = MinIn(bx) /\ inc' = (IF Better(x) THEN x ELSE inc)
                    /\ open' = open \ {bx} /\ UNCHANGED status
NodeBranch(bx) == \E j \in {1, 2} :
   LET lo == bx[2 * j - 1]  hi == bx[2 * j] IN
   /\ lo < hi
   /\ \E v \in lo..(hi - 1) :          \* fractional LP value in (v, v+1): children x_j <= v and x_j >= v+1
        LET left == IF j = 1 THEN <<lo, v, bx[3], bx[4]>> ELSE <<bx[1], bx[2], lo, v>>
            right == IF j = 1 THEN <<(IF Bug = "ceil_plus_one" THEN v + 2 ELSE v + 1), hi, bx[3], bx[4]>>
                     ELSE <<bx[1], bx[2], (IF Bug = "ceil_plus_one" THEN v + 2 ELSE v + 1), hi>>
        IN open' = (open \ {bx}) \cup {left, right}
   /\ UNCHANGED <<inc, status>>
Process == /\ status = "run" /\ \E bx \in open :
                \/ NodeInfeasible(bx)
                \/ (FB(bx) # {} /\ (NodePrune(bx) \/ NodeIntegral(bx) \/ NodeBranch(bx)))
                \/ (FB(bx) = {} /\ NodeBranch(bx))      \* relaxation feasible although no integer point: branch
           /\ Keep
Finish == /\ status = "run" /\ open = {}
          /\ status' = (IF inc = None THEN "INFEASIBLE" ELSE "OPTIMAL") /\ UNCHANGED <<open, inc>> /\ Keep
Next == Heuristic \/ Process \/ Finish
Spec == Init /\ [][Next]_vars
IncFeasible == inc # None => inc \in F
Cover == \A x \in F : (inc # None /\ Obj(inc) <= Obj(x)) \/ \E bx \in open : InBox(x, bx)
OptimalMeansOptimal == status = "OPTIMAL" => (inc \in F /\ \A x \in F : Obj(inc) <= Obj(x))
InfeasibleMeansNone == status = "INFEASIBLE" => F = {}
NoStuck == status = "run" => ENABLED Next
====================================================================
