---------------------------- MODULE MilpTrace ----------------------------
(* Batch validation of solve_milp (C04).  Instances: integer data, every variable has an       *)
(* explicit upper-bound row so the integer part is finite; at most one continuous variable,     *)
(* whose best value for a fixed integer part is decided exactly by the LP oracle of Lin.        *)
(* Returned points are projected to units of 10^-6.                                             *)
EXTENDS Lin, TLC, Json, IOUtils
Batch == JsonDeserialize(IOEnv.TRACE_FILE)
VARIABLES tid, l, ok, why, orc, open, inc, sg, div, unres
vars == <<tid, l, ok, why, orc, open, inc, sg, div, unres>>
T == Batch[tid]
S6 == 1000000
Abs(x) == IF x < 0 THEN -x ELSE x
NoInc == 2000000000
SumSeq(f(_), k) == LET RECURSIVE G(_)
                       G(i) == IF i > k THEN 0 ELSE f(i) + G(i + 1)
                   IN G(1)
\* ---- oracle for trace t: integer variables I, continuous variable index cv (0 = none)
IntPoints(t) == LET n == Batch[t].n  ub == Batch[t].ub  I == {Batch[t].ints[i] : i \in 1..Len(Batch[t].ints)}
                IN {x \in [1..n -> 0..(CHOOSE mx \in {ub[j] : j \in 1..n} : \A j \in 1..n : ub[j] <= mx)] :
                      \A j \in 1..n : x[j] <= ub[j] /\ (j \notin I => x[j] = 0)}
\* value <<num, den>> of the best completion of integer part x, or "none"
Complete(t, x, sgn) ==
  LET n == Batch[t].n  m == Batch[t].m  A == Batch[t].A  b == Batch[t].b  c == Batch[t].c  cv == Batch[t].cv
      base == SumSeq(LAMBDA j : sgn * c[j] * x[j], n)
  IN IF cv = 0 THEN (IF \A i \in 1..m : SumSeq(LAMBDA j : A[i][j] * x[j], n) <= b[i] THEN <<base, 1>> ELSE <<0, 0>>)
     ELSE \* one continuous variable y >= 0: rows a_i y <= r_i give an interval [lo, hi] of rationals; optimum at an end point
          LET a(i) == A[i][cv]
              r(i) == b[i] - SumSeq(LAMBDA j : A[i][j] * x[j], n)
              rowsP == {i \in 1..m : a(i) > 0}      \* upper bounds r/a
              rowsN == {i \in 1..m : a(i) < 0}      \* lower bounds r/a (dividing by a negative number flips the sense)
              okZ == \A i \in 1..m : a(i) = 0 => r(i) >= 0
              LeqQ(p, q) == p[1] * q[2] <= q[1] * p[2]           \* rationals with positive denominators
              ups == {<<r(i), a(i)>> : i \in rowsP}
              los == {<<-r(i), -a(i)>> : i \in rowsN} \cup {<<0, 1>>}
              hi == IF ups = {} THEN <<1000000, 1>> ELSE CHOOSE u \in ups : \A w \in ups : LeqQ(u, w)
              lo == CHOOSE u \in los : \A w \in los : LeqQ(w, u)
              cc == sgn * c[cv]
              y == IF cc >= 0 THEN lo ELSE hi
          IN IF ~okZ \/ ~LeqQ(lo, hi) THEN <<0, 0>>
             ELSE <<cc * y[1] + base * y[2], y[2]>>
Best(t, sgn) == LET vals == {Complete(t, x, sgn) : x \in IntPoints(t)} \ {<<0, 0>>}
                IN IF vals = {} THEN <<0, 0>> ELSE CHOOSE v \in vals : \A w \in vals : ~Less(w, v)
\* every integer part with a feasible completion, with the best completion value in units of 10^-6 for either sense
\* (vmin = min c.x, vmax = -(max c.x): both "smaller is better")
FeasPts(t) == {r \in {[p |-> x, a |-> Complete(t, x, 1), z |-> Complete(t, x, -1)] : x \in IntPoints(t)} : r.a # <<0, 0>>}
Init == /\ tid \in 1..Len(Batch) /\ l = 1 /\ ok = TRUE /\ why = ""
        /\ orc = [min |-> Best(tid, 1), max |-> Best(tid, -1),
                  F |-> {[p |-> r.p, vmin |-> Dec6(r.a[1], r.a[2]), vmax |-> Dec6(r.z[1], r.z[2])] : r \in FeasPts(tid)}]
        /\ open = {} /\ inc = NoInc /\ sg = 1 /\ div = {} /\ unres = FALSE
I == {T.ints[i] : i \in 1..Len(T.ints)}
PointBad(x) ==
  IF Len(x) # T.n THEN "Solution.wrong_dimension"
  ELSE IF \E j \in 1..T.n : x[j] < -2 THEN "Solution.negative_coordinate"
  ELSE IF \E j \in I : LET r == x[j] % S6 IN r > 2 /\ r < S6 - 2 THEN "Solution.integer_variable_fractional"
  ELSE IF \E i \in 1..T.m : SumSeq(LAMBDA j : T.A[i][j] * x[j], T.n) > T.b[i] * S6 + SumSeq(LAMBDA j : Abs(T.A[i][j]), T.n) * 2 + 2 THEN "Solution.violates_constraint"
  ELSE ""
Check(e) ==
  IF e.e = "raise" THEN "Raise." \o e.what
  ELSE IF e.e = "noreturn" THEN "NoReturn"
  ELSE
  LET best == IF e.minimize THEN orc.min ELSE orc.max            \* <<num, den>> of sgn * optimum, or <<0,0>> if infeasible
      feasible == best # <<0, 0>>
      opt6 == IF e.minimize THEN Dec6(best[1], best[2]) ELSE -Dec6(best[1], best[2])
      badsols == {i \in 1..Len(e.sols) : PointBad(e.sols[i]) # ""}
      cslack == SumSeq(LAMBDA j : Abs(T.c[j]), T.n) * 2 + 2
  IN IF e.status = "INFEASIBLE" THEN (IF feasible THEN "Infeasible.but_integer_feasible_point_exists" ELSE "")
     ELSE IF e.status = "UNBOUNDED" THEN "Unbounded.but_every_variable_is_bounded"
     ELSE IF e.status = "MAX_ITER" THEN ""
     ELSE IF e.status \notin {"OPTIMAL", "FEASIBLE"} THEN "Return.unexpected_status"
     ELSE IF ~e.finite THEN "Solution.not_finite"
     ELSE IF PointBad(e.x) # "" THEN PointBad(e.x)
     ELSE IF badsols # {} THEN "Pool." \o PointBad(e.sols[CHOOSE i \in badsols : TRUE])
     ELSE IF Abs(e.obj6 - SumSeq(LAMBDA j : T.c[j] * e.x[j], T.n)) > cslack THEN "Objective.is_not_c_dot_x"
     ELSE IF ~feasible THEN "Solution.for_infeasible_problem"
     ELSE IF e.status = "OPTIMAL" /\ Abs(e.obj6 - opt6) > 4 + Abs(opt6) \div 500000 THEN "Optimal.but_better_point_exists"
     ELSE IF (IF e.minimize THEN e.obj6 < opt6 - 4 ELSE e.obj6 > opt6 + 4) THEN "Objective.better_than_the_optimum"
     ELSE ""
\* ---- step level: the branch-and-bound events of one call, read as actions of Bnb.tla on the concrete instance.
\* State: open = set of open boxes <<lower, upper>> (integer bounds, 10^6 = none), inc = sense-normalised objective of the
\* incumbent in units of 10^-6 (NoInc = none).  All guards here are diagnostic (`div`): C04 speaks about what is returned.
Val(r) == IF sg = 1 THEN r.vmin ELSE r.vmax
Tol(v) == 4 + Abs(v) \div 500000
InBox(p, bx) == \A j \in 1..T.n : bx[1][j] <= p[j] /\ p[j] <= bx[2][j]
\* Bnb!Cover: every feasible integer part strictly better than the incumbent lies in an open box
CoverOK(op, ic) == \A r \in orc.F : (ic # NoInc /\ ic <= Val(r) + Tol(Val(r))) \/ \E bx \in op : InBox(r.p, bx)
BoxHasBetter(bx, ic) == \E r \in orc.F : InBox(r.p, bx) /\ (ic = NoInc \/ Val(r) + Tol(Val(r)) < ic)
Cdotx(x) == SumSeq(LAMBDA j : T.c[j] * x[j], T.n)
IncGuards(e) ==       \* a point offered as incumbent: feasible, and its objective is c.x
  (IF PointBad(e.x) # "" THEN {"Incumbent(" \o e.src \o ")." \o PointBad(e.x)} ELSE {})
  \cup (IF Abs(e.obj6 - Cdotx(e.x)) > SumSeq(LAMBDA j : Abs(T.c[j]), T.n) * 2 + 2 THEN {"Incumbent(" \o e.src \o ").objective_is_not_c_dot_x"} ELSE {})
Bnb(e) ==
  CASE e.e = "start" ->
         /\ open' = {} /\ inc' = NoInc /\ sg' = (IF e.minimize THEN 1 ELSE -1) /\ UNCHANGED div
    [] e.e = "milp_incumbent" ->
         /\ inc' = (IF sg * e.obj6 < inc THEN sg * e.obj6 ELSE inc)
         /\ div' = div \cup IncGuards(e)
         /\ UNCHANGED <<open, sg>>
    [] e.e = "milp_root_integral" ->      \* the relaxation of the whole problem is integral: NodeIntegral on the root box, nothing stays open
         /\ open' = {} /\ inc' = sg * e.obj6 /\ UNCHANGED sg
         /\ div' = div \cup IncGuards(e) \cup (IF \E r \in orc.F : Val(r) + Tol(Val(r)) < sg * e.obj6 THEN {"RootIntegral.not_optimal"} ELSE {})
    [] e.e = "milp_tighten_binary" -> UNCHANGED <<open, inc, sg, div>>     \* its effect is the root box of the next event
    [] e.e = "milp_open_root" ->
         /\ open' = {<<e.lower, e.upper>>}
         /\ div' = div \cup (IF CoverOK({<<e.lower, e.upper>>}, inc) THEN {} ELSE {"Root.box_excludes_feasible_point"})
         /\ UNCHANGED <<inc, sg>>
    [] e.e = "milp_node" ->
         LET bx == <<e.lower, e.upper>>
             rest == open \ {bx}
             isopen == IF bx \in open THEN {} ELSE {"Node.box_not_open"}
         IN (CASE e.act \in {"prune_bound", "prune_lp"} ->
                  /\ open' = rest /\ UNCHANGED <<inc, sg>>
                  /\ div' = div \cup isopen \cup (IF inc = NoInc THEN {"Prune.without_incumbent"} ELSE {})
                                 \cup (IF BoxHasBetter(bx, inc) THEN {"Prune.box_contains_better_point"} ELSE {})
              [] e.act = "lp_infeasible" ->
                  /\ open' = rest /\ UNCHANGED <<inc, sg>>
                  /\ div' = div \cup isopen \cup (IF \E r \in orc.F : InBox(r.p, bx) THEN {"NodeInfeasible.box_has_feasible_point"} ELSE {})
              [] e.act = "integral" ->
                  /\ open' = rest /\ UNCHANGED sg
                  /\ inc' = (IF sg * e.obj6 < inc THEN sg * e.obj6 ELSE inc)
                  /\ div' = div \cup isopen \cup IncGuards([x |-> e.x, obj6 |-> e.obj6, src |-> "node"])
                                 \cup (IF BoxHasBetter(bx, sg * e.obj6) THEN {"NodeIntegral.not_best_of_its_box"} ELSE {})
              [] e.act = "branch" ->
                  LET j == e.var
                      v == e.left_upper[j]
                      left == <<e.lower, e.left_upper>>
                      right == <<e.right_lower, e.upper>>
                      shape == /\ j \in I
                               /\ \A k \in 1..T.n : k # j => e.left_upper[k] = e.upper[k] /\ e.right_lower[k] = e.lower[k]
                               /\ e.right_lower[j] = v + 1 /\ e.lower[j] <= v /\ v + 1 <= e.upper[j]
                               /\ v * S6 <= e.val6 /\ e.val6 <= (v + 1) * S6
                  IN /\ open' = rest \cup {left, right} /\ UNCHANGED <<inc, sg>>
                     /\ div' = div \cup isopen \cup (IF shape THEN {} ELSE {"Branch.children_do_not_partition_parent"})
              [] OTHER ->      \* node LP did not finish (iteration limit): the box leaves `open` unexplored; the call must not
                               \* claim OPTIMAL or INFEASIBLE afterwards (checked at the return)
                  /\ open' = rest /\ UNCHANGED <<inc, sg>> /\ div' = div \cup isopen)
    [] OTHER -> UNCHANGED <<open, inc, sg, div>>
IsRet(e) == e.e \in {"ret", "raise", "noreturn"}
Step == /\ ok /\ l <= Len(T.events) /\ l' = l + 1 /\ UNCHANGED <<tid, orc>>
        /\ LET e == T.events[l] IN
           IF IsRet(e)
           THEN /\ (LET w == Check(e) IN IF w = "" THEN UNCHANGED <<ok, why>> ELSE ok' = FALSE /\ why' = w)
                /\ UNCHANGED <<open, inc, sg, unres>>
                \* Bnb!Finish: INFEASIBLE only without incumbent; OPTIMAL at loop exit only under Cover with no open box
                /\ div' = div \cup (IF e.e = "ret" /\ e.status = "INFEASIBLE" /\ inc # NoInc THEN {"Return.infeasible_with_incumbent"} ELSE {})
                              \cup (IF e.e = "ret" /\ e.status = "OPTIMAL" /\ open = {} /\ ~unres /\ ~CoverOK(open, inc) THEN {"Return.optimal_without_cover"} ELSE {})
                              \cup (IF e.e = "ret" /\ e.status \in {"OPTIMAL", "INFEASIBLE"} /\ unres THEN {"Return.verdict_with_unresolved_node"} ELSE {})
                              \* the point handed back as OPTIMAL must be the best incumbent the call has seen
                              \cup (IF e.e = "ret" /\ e.status = "OPTIMAL" /\ e.finite /\ inc # NoInc /\ sg * e.obj6 > inc + Tol(inc) THEN {"Return.optimal_is_a_stale_incumbent"} ELSE {})
           ELSE /\ Bnb(e) /\ UNCHANGED <<ok, why>>
                /\ unres' = (IF e.e = "start" THEN FALSE
                             ELSE IF e.e = "milp_node" /\ e.act \notin {"prune_bound", "prune_lp", "lp_infeasible", "integral", "branch"} THEN TRUE
                             ELSE unres)
Spec == Init /\ [][Step]_vars
Report == (l = Len(T.events) + 1 \/ ~ok) => PrintT(ToJson([tid |-> tid, ok |-> ok, why |-> why, l |-> l, feas |-> orc.min # <<0, 0>>, div |-> div]))
==========================================================================
