---------------------------- MODULE MstDefs ----------------------------
(* Undirected weighted multigraphs: edges are a sequence of <<u, v, w>> over nodes 0..n-1;   *)
(* an edge is identified by its index (parallel edges are different edges).                  *)
EXTENDS Integers, FiniteSets, Sequences
Nodes(n) == 0..(n - 1)
\* partition (function node -> block) obtained by merging the ends of the edges in index set S
RECURSIVE CompOf(_, _, _)
CompOf(n, E, S) == IF S = {} THEN [x \in Nodes(n) |-> {x}]
                   ELSE LET i == CHOOSE j \in S : TRUE
                            p == CompOf(n, E, S \ {i})
                            m == p[E[i][1]] \cup p[E[i][2]]
                        IN [x \in Nodes(n) |-> IF x \in m THEN m ELSE p[x]]
NComp(n, E, S) == Cardinality({CompOf(n, E, S)[x] : x \in Nodes(n)})
\* S is a forest iff every edge reduces the number of components by one
IsForest(n, E, S) == NComp(n, E, S) = n - Cardinality(S)
Connected(n, E) == NComp(n, E, 1..Len(E)) = 1
IsSpanningTree(n, E, S) == IsForest(n, E, S) /\ NComp(n, E, S) = 1
\* spanning forest: a forest with the same components as the whole graph
IsSpanningForest(n, E, S) == IsForest(n, E, S) /\ NComp(n, E, S) = NComp(n, E, 1..Len(E))
Weight(E, S) == LET RECURSIVE W(_)
                    W(T) == IF T = {} THEN 0 ELSE LET i == CHOOSE j \in T : TRUE IN E[i][3] + W(T \ {i})
                IN W(S)
\* enumeration oracle
SpanningForests(n, E) == {S \in SUBSET (1..Len(E)) : IsSpanningForest(n, E, S)}
MinForestWeight(n, E) == LET ws == {Weight(E, S) : S \in SpanningForests(n, E)}
                         IN CHOOSE m \in ws : \A x \in ws : m <= x
\* certificate (cycle property): every non-forest edge that is not a self loop and joins two nodes of one tree is at
\* least as heavy as every edge on the forest path between its ends.  PathMax by DFS over the forest.
RECURSIVE PathMax(_, _, _, _, _)
PathMax(E, S, cur, target, seen) ==       \* returns -INF sentinel (-1000000) when cur = target, NoPath (1000000) if none
  IF cur = target THEN -1000000
  ELSE LET outs == {i \in S : (E[i][1] = cur /\ E[i][2] \notin seen) \/ (E[i][2] = cur /\ E[i][1] \notin seen)}
           Other(i) == IF E[i][1] = cur THEN E[i][2] ELSE E[i][1]
           vals == {LET r == PathMax(E, S, Other(i), target, seen \cup {Other(i)})
                    IN IF r = 1000000 THEN 1000000 ELSE IF E[i][3] > r THEN E[i][3] ELSE r : i \in outs}
           fin == vals \ {1000000}
       IN IF fin = {} THEN 1000000 ELSE CHOOSE m \in fin : TRUE      \* a forest has at most one path
CycleProperty(n, E, S) ==
  \A i \in (1..Len(E)) \ S : E[i][1] # E[i][2] =>
      LET pm == PathMax(E, S, E[i][1], E[i][2], {E[i][1]}) IN pm = 1000000 \/ pm <= E[i][3]
=========================================================================
