CONSTANT N = 3
CONSTANT MaxE = 4
CONSTANT WSet <- W3
CONSTANT Alg = "none"
CONSTANT Bug = "none"
SPECIFICATION Spec
INVARIANT CertOK
CHECK_DEADLOCK FALSE
