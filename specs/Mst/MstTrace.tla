---------------------------- MODULE MstTrace ----------------------------
(* Batch validation of kruskal / prim results (C13) against MstDefs.                         *)
EXTENDS MstDefs, TLC, Json, IOUtils
Batch == JsonDeserialize(IOEnv.TRACE_FILE)
VARIABLES tid, l, ok, why, mfw
vars == <<tid, l, ok, why, mfw>>
T == Batch[tid]
E == T.edges
n == T.n
Init == /\ tid \in 1..Len(Batch) /\ l = 1 /\ ok = TRUE /\ why = ""
        /\ mfw = IF Len(Batch[tid].edges) <= 11 THEN MinForestWeight(Batch[tid].n, Batch[tid].edges) ELSE -999999
\* match the returned edges (<<u, v, w>>, any orientation) to distinct input edge indices: greedy matching is exact
\* because candidates for one returned triple are interchangeable (same ends, same weight)
RECURSIVE Match(_, _, _)
Match(ret, i, used) ==
  IF i > Len(ret) THEN used
  ELSE LET c == {j \in (1..Len(E)) \ used : E[j][3] = ret[i][3] /\
                      ((E[j][1] = ret[i][1] /\ E[j][2] = ret[i][2]) \/ (E[j][1] = ret[i][2] /\ E[j][2] = ret[i][1]))}
       IN IF c = {} THEN {-1} ELSE Match(ret, i + 1, used \cup {CHOOSE j \in c : TRUE})
Binom(m, k) == LET RECURSIVE B(_, _)
                   B(a, b) == IF b = 0 THEN 1 ELSE IF a < b THEN 0 ELSE (B(a - 1, b - 1) * a) \div b
               IN B(m, k)
Check(e) ==
  IF e.e = "raise" THEN "Raise." \o e.what
  ELSE IF e.e = "noreturn" THEN "NoReturn"
  ELSE
  LET conn == Connected(n, E) IN
  IF e.status = "INFEASIBLE" THEN
       (IF conn THEN "Infeasible.but_graph_connected" ELSE IF e.allow_forest THEN "Infeasible.although_forest_allowed" ELSE "")
  ELSE IF e.status \notin {"OPTIMAL", "FEASIBLE"} THEN "Return.unexpected_status"
  ELSE IF ~conn /\ ~e.allow_forest THEN "Tree.returned_for_disconnected_graph"
  ELSE IF (e.status = "FEASIBLE") # (~conn) THEN "Status.feasible_iff_forest"
  ELSE LET S == Match(e.tree, 1, {}) IN
       IF -1 \in S THEN "Tree.edge_not_in_input"
       ELSE IF ~IsForest(n, E, S) THEN "Tree.contains_cycle"
       ELSE IF ~IsSpanningForest(n, E, S) THEN "Tree.does_not_span"
       ELSE IF ~e.exact THEN "Weight.not_representable"
       ELSE IF e.obj # Weight(E, S) THEN "Weight.objective_is_not_sum_of_edges"
       ELSE IF ~CycleProperty(n, E, S) THEN "Weight.not_minimum(cycle_property)"
       ELSE IF mfw # -999999 /\ e.obj # mfw THEN "Weight.not_minimum(enumeration)"
       ELSE ""
Step == /\ ok /\ l <= Len(T.events) /\ l' = l + 1 /\ UNCHANGED <<tid, mfw>>
        /\ LET w == Check(T.events[l]) IN IF w = "" THEN UNCHANGED <<ok, why>> ELSE ok' = FALSE /\ why' = T.events[l].solver \o ":" \o w
Spec == Init /\ [][Step]_vars
Report == (l = Len(T.events) + 1 \/ ~ok) => PrintT(ToJson([tid |-> tid, ok |-> ok, why |-> why, l |-> l, div |-> {}]))
==========================================================================
