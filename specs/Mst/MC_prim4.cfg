CONSTANT N = 4
CONSTANT MaxE = 4
CONSTANT WSet <- W2
CONSTANT Alg = "prim"
CONSTANT Bug = "none"
SPECIFICATION Spec
INVARIANT TreeIsForest
INVARIANT KruskalFinal
INVARIANT PrimFinal
INVARIANT PartMatches
CHECK_DEADLOCK FALSE
