---------------------------- MODULE MstAlgs ----------------------------
(* Kruskal (over the abstract union-find partition of C20) and Prim (growing frontier) as    *)
(* transition systems over ALL multigraphs with at most MaxE edges on N nodes (weights in    *)
(* WSet, self loops and parallel edges included), ties broken nondeterministically.          *)
(* Theorems checked by TLC: the result is a minimum spanning forest / tree (enumeration),    *)
(* and CycleProperty <=> minimal weight for every spanning forest (certificate soundness).   *)
EXTENDS MstDefs, TLC
CONSTANTS N, MaxE, WSet, Alg, Bug
W3 == {-1, 0, 2}
W2 == {-1, 1}
Pairs == {<<u, v>> \in Nodes(N) \X Nodes(N) : u <= v}
EdgeSpace == {<<p[1], p[2], w>> : p \in Pairs, w \in WSet}
VARIABLES E, left, tree, part, intree, done
vars == <<E, left, tree, part, intree, done>>
SetToSeq(S) == LET RECURSIVE F(_, _)
                   F(T, acc) == IF T = {} THEN acc ELSE LET x == CHOOSE y \in T : TRUE IN F(T \ {x}, Append(acc, x))
               IN F(S, <<>>)
Init == /\ E \in {SetToSeq(S) : S \in {T \in SUBSET EdgeSpace : Cardinality(T) <= MaxE}}
        /\ left = 1..Len(E) /\ tree = {} /\ part = [x \in Nodes(N) |-> {x}] /\ intree = {0} /\ done = FALSE

\* ---- Kruskal: next edge = any remaining edge of minimal weight; accept iff union() merges two blocks
KruskalStep ==
  /\ Alg = "kruskal" /\ ~done /\ left # {}
  /\ \E i \in left :
       /\ (Bug = "unsorted" \/ \A j \in left : E[i][3] <= E[j][3])
       /\ left' = left \ {i}
       /\ IF part[E[i][1]] # part[E[i][2]]
            THEN /\ tree' = tree \cup {i}
                 /\ part' = LET m == part[E[i][1]] \cup part[E[i][2]] IN [x \in Nodes(N) |-> IF x \in m THEN m ELSE part[x]]
            ELSE UNCHANGED <<tree, part>>
  /\ UNCHANGED <<E, intree, done>>
KruskalDone == Alg = "kruskal" /\ ~done /\ left = {} /\ done' = TRUE /\ UNCHANGED <<E, left, tree, part, intree>>

\* ---- Prim from node 0: add any minimal edge crossing the frontier
Crossing == {i \in 1..Len(E) : (E[i][1] \in intree) # (E[i][2] \in intree)}
PrimStep ==
  /\ Alg = "prim" /\ ~done /\ Crossing # {}
  /\ \E i \in Crossing :
       /\ \A j \in Crossing : E[i][3] <= E[j][3]
       /\ tree' = tree \cup {i} /\ intree' = intree \cup {E[i][1], E[i][2]}
  /\ UNCHANGED <<E, left, part, done>>
PrimDone == Alg = "prim" /\ ~done /\ Crossing = {} /\ done' = TRUE /\ UNCHANGED <<E, left, tree, part, intree>>

Next == KruskalStep \/ KruskalDone \/ PrimStep \/ PrimDone
Spec == Init /\ [][Next]_vars

TreeIsForest == IsForest(N, E, tree)
KruskalFinal == (Alg = "kruskal" /\ done) => (IsSpanningForest(N, E, tree) /\ Weight(E, tree) = MinForestWeight(N, E))
PrimFinal == (Alg = "prim" /\ done) =>
               IF Connected(N, E) THEN IsSpanningTree(N, E, tree) /\ Weight(E, tree) = MinForestWeight(N, E)
               ELSE intree # Nodes(N)
PartMatches == Alg = "kruskal" => part = CompOf(N, E, tree)
\* certificate soundness and completeness on the whole scope
CertOK == \A S \in SpanningForests(N, E) : CycleProperty(N, E, S) = (Weight(E, S) = MinForestWeight(N, E))
=========================================================================
