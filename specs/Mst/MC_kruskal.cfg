CONSTANT N = 3
CONSTANT MaxE = 3
CONSTANT WSet <- W3
CONSTANT Alg = "kruskal"
CONSTANT Bug = "none"
SPECIFICATION Spec
INVARIANT TreeIsForest
INVARIANT KruskalFinal
INVARIANT PrimFinal
INVARIANT PartMatches
CHECK_DEADLOCK FALSE
