---------------------------- MODULE Cp ----------------------------
(* Semantics of the constraint language of solvor.cp.Model (DESIGN §5 C05/C06).              *)
(* Expressions are records mirroring what the public operators can build:                    *)
(*   [k |-> "var", v], [k |-> "const", c], [k |-> "add"/"sub", l, r], [k |-> "mul", l, c],   *)
(*   [k |-> "rsub", l, c]  (c - l).                                                          *)
(* Constraints: eq/ne between expressions, all_different, sum_eq/le/ge, circuit,             *)
(* no_overlap, cumulative.  An assignment is a function variable index -> Int.               *)
EXTENDS Integers, FiniteSets, Sequences

RECURSIVE Eval(_, _)
Eval(e, asg) ==
  CASE e.k = "var" -> asg[e.v]
    [] e.k = "const" -> e.c
    [] e.k = "add" -> Eval(e.l, asg) + Eval(e.r, asg)
    [] e.k = "sub" -> Eval(e.l, asg) - Eval(e.r, asg)
    [] e.k = "mul" -> Eval(e.l, asg) * e.c
    [] e.k = "rsub" -> e.c - Eval(e.l, asg)

\* independent twin of Eval: flatten to (coefficient per variable, constant)
RECURSIVE Coef(_, _)
Coef(e, v) ==
  CASE e.k = "var" -> IF e.v = v THEN 1 ELSE 0
    [] e.k = "const" -> 0
    [] e.k = "add" -> Coef(e.l, v) + Coef(e.r, v)
    [] e.k = "sub" -> Coef(e.l, v) - Coef(e.r, v)
    [] e.k = "mul" -> Coef(e.l, v) * e.c
    [] e.k = "rsub" -> -Coef(e.l, v)
RECURSIVE Const(_)
Const(e) ==
  CASE e.k = "var" -> 0
    [] e.k = "const" -> e.c
    [] e.k = "add" -> Const(e.l) + Const(e.r)
    [] e.k = "sub" -> Const(e.l) - Const(e.r)
    [] e.k = "mul" -> Const(e.l) * e.c
    [] e.k = "rsub" -> e.c - Const(e.l)
EvalFlat(e, asg) == LET RECURSIVE S(_)
                        S(V) == IF V = {} THEN 0 ELSE LET v == CHOOSE y \in V : TRUE IN Coef(e, v) * asg[v] + S(V \ {v})
                    IN Const(e) + S(DOMAIN asg)

SeqSum(vs, asg) == LET RECURSIVE S(_)
                       S(i) == IF i > Len(vs) THEN 0 ELSE asg[vs[i]] + S(i + 1)
                   IN S(1)

\* circuit: successor function over node indices 0..n-1 forms one cycle through all nodes
IsCircuit(vs, asg) ==
  LET n == Len(vs)
      succ == [i \in 0..(n - 1) |-> asg[vs[i + 1]]]
      RECURSIVE Walk(_, _, _)
      Walk(cur, seen, steps) == IF steps = n THEN cur = 0 /\ Cardinality(seen) = n
                                ELSE IF cur \in seen \/ cur \notin 0..(n - 1) THEN FALSE
                                ELSE Walk(succ[cur], seen \cup {cur}, steps + 1)
  IN n = 0 \/ (n >= 2 /\ Walk(0, {}, 0))      \* a single node would need a self-loop, which circuit forbids
\* twin: a permutation without fixed point sets smaller than the whole: every node reachable from 0, bijective
IsCircuitTwin(vs, asg) ==
  LET n == Len(vs)
      succ == [i \in 0..(n - 1) |-> asg[vs[i + 1]]]
      RECURSIVE Reach(_)
      Reach(S) == LET T == S \cup {succ[i] : i \in S} IN IF T = S THEN S ELSE Reach(T)
  IN n = 0 \/ (/\ n >= 2
               /\ \A i \in 0..(n - 1) : succ[i] \in 0..(n - 1)
               /\ \A i, j \in 0..(n - 1) : i # j => succ[i] # succ[j]
               /\ Reach({succ[0]}) = 0..(n - 1))

NoOverlap(vs, d, asg) == \A i, j \in 1..Len(vs) : i < j =>
                            (asg[vs[i]] + d[i] <= asg[vs[j]] \/ asg[vs[j]] + d[j] <= asg[vs[i]])
Load(vs, d, dem, asg, t) ==
  LET act == {i \in 1..Len(vs) : asg[vs[i]] <= t /\ t < asg[vs[i]] + d[i]}
      RECURSIVE L(_)
      L(S) == IF S = {} THEN 0 ELSE LET i == CHOOSE x \in S : TRUE IN dem[i] + L(S \ {i})
  IN L(act)
Cumulative(vs, d, dem, cap, asg) ==
  LET lo == IF Len(vs) = 0 THEN 0 ELSE CHOOSE m \in {asg[vs[i]] : i \in 1..Len(vs)} : \A i \in 1..Len(vs) : m <= asg[vs[i]]
      hi == IF Len(vs) = 0 THEN 0 ELSE CHOOSE m \in {asg[vs[i]] + d[i] : i \in 1..Len(vs)} : \A i \in 1..Len(vs) : m >= asg[vs[i]] + d[i]
  IN \A t \in lo..hi : Load(vs, d, dem, asg, t) <= cap

Holds(c, asg) ==
  CASE c.k = "eq" -> Eval(c.l, asg) = Eval(c.r, asg)
    [] c.k = "ne" -> Eval(c.l, asg) # Eval(c.r, asg)
    [] c.k = "all_different" -> \A i, j \in 1..Len(c.vs) : i < j => asg[c.vs[i]] # asg[c.vs[j]]
    [] c.k = "sum_eq" -> SeqSum(c.vs, asg) = c.c
    [] c.k = "sum_le" -> SeqSum(c.vs, asg) <= c.c
    [] c.k = "sum_ge" -> SeqSum(c.vs, asg) >= c.c
    [] c.k = "circuit" -> IsCircuit(c.vs, asg)
    [] c.k = "no_overlap" -> NoOverlap(c.vs, c.d, asg)
    [] c.k = "cumulative" -> Cumulative(c.vs, c.d, c.dem, c.cap, asg)

\* doms: sequence of <<lo, hi>>; assignments are functions 1..NV -> Int
AllAsg(doms) == {a \in [1..Len(doms) -> (IF Len(doms) = 0 THEN {0} ELSE UNION {doms[v][1]..doms[v][2] : v \in 1..Len(doms)})] :
                   \A v \in 1..Len(doms) : a[v] >= doms[v][1] /\ a[v] <= doms[v][2]}
Solutions(doms, cons) == {a \in AllAsg(doms) : \A i \in 1..Len(cons) : Holds(cons[i], a)}
====================================================================
