---------------------------- MODULE CpTrace ----------------------------
(* Batch validation for the CP layer.                                                        *)
(*  kind "enc"   (C06): the CNF captured from SATEncoder + the (variable,value)->boolean map  *)
(*       must have, projected on the user's variables, exactly the solutions of the model:   *)
(*       for EVERY assignment a:  Dpll(CNF + Fix(a))  <=>  a \in Solutions;  and no CNF      *)
(*       model gives a variable zero or two values.                                          *)
(*  kind "solve" (C05): each Model.solve result (solver, limit, hints) is checked against    *)
(*       Solutions: returned assignments are in-domain and extend to a solution, INFEASIBLE  *)
(*       only if Solutions = {}.                                                             *)
EXTENDS Cp, Dpll, TLC, Json, IOUtils
Batch == JsonDeserialize(IOEnv.TRACE_FILE)
VARIABLES tid, l, sols, ok, why, wit
vars == <<tid, l, sols, ok, why, wit>>
T == Batch[tid]
ToSet(s) == {s[i] : i \in 1..Len(s)}
NV == Len(T.doms)
Init == /\ tid \in 1..Len(Batch) /\ l = 1 /\ ok = TRUE /\ why = "" /\ wit = {}
        /\ sols = Solutions(Batch[tid].doms, Batch[tid].cons)

Fail(w) == ok' = FALSE /\ why' = w
Pass == UNCHANGED <<ok, why>>
\* witness predicate of a known finding (DESIGN §4.3): the encoder skips a time point of a cumulative constraint when
\* more than 10 (task, start) literals are candidates for being active there
WideCumulative(c) ==
  c.k = "cumulative" /\
  \E t \in (-64)..64 :
     LET cnt(i) == Cardinality({s \in (T.doms[c.vs[i]][1])..(T.doms[c.vs[i]][2]) : s <= t /\ t < s + c.d[i]})
         RECURSIVE S(_)
         S(i) == IF i > Len(c.vs) THEN 0 ELSE cnt(i) + S(i + 1)
     IN S(1) > 10
ShapeOf(c) == IF WideCumulative(c) THEN "cumulative:time_point_with_more_than_10_literals" ELSE c.shape
ViolatedShapes(a) == {ShapeOf(T.cons[i]) : i \in {j \in 1..Len(T.cons) : ~Holds(T.cons[j], a)}}

\* ---------------- C06
Cnf == {ToSet(T.cnf[i]) : i \in 1..Len(T.cnf)}
BoolOf(v, x) == T.bmap[v][x - T.doms[v][1] + 1]
Vals(v) == (T.doms[v][1])..(T.doms[v][2])
Fix(a) == UNION {{ {IF x = a[v] THEN BoolOf(v, x) ELSE -BoolOf(v, x)} : x \in Vals(v)} : v \in 1..NV}
SatUnder(a) == Dpll(Cnf \cup Fix(a))
All == AllAsg(T.doms)
EncStep ==
  LET extra == {a \in All : a \notin sols /\ SatUnder(a)}
      missing == {a \in sols : ~SatUnder(a)}
      zero == {v \in 1..NV : Dpll(Cnf \cup {{-BoolOf(v, x)} : x \in Vals(v)})}
      two == {v \in 1..NV : \E x, y \in Vals(v) : x < y /\ Dpll(Cnf \cup {{BoolOf(v, x)}, {BoolOf(v, y)}})}
  IN IF extra # {} THEN Fail("Encoding.extra_model") /\ wit' = UNION {ViolatedShapes(a) : a \in extra}
     ELSE IF missing # {} THEN Fail("Encoding.missing_model") /\ wit' = {T.cons[i].shape : i \in 1..Len(T.cons)}
     ELSE IF zero # {} THEN Fail("Decode.variable_without_value") /\ UNCHANGED wit
     ELSE IF two # {} THEN Fail("Decode.variable_with_two_values") /\ UNCHANGED wit
     ELSE Pass /\ UNCHANGED wit

\* ---------------- C05
Named == {v \in 1..NV : T.named[v]}
\* a returned assignment: sequence of <<var, value>> pairs over the named variables
SolCheck(s) ==
  LET vs == [i \in 1..Len(s) |-> s[i][1]]
      f == [v \in ToSet(vs) |-> s[CHOOSE i \in 1..Len(s) : s[i][1] = v][2]]
  IN IF ToSet(vs) # Named \/ Len(s) # Cardinality(Named) THEN "Solution.not_exactly_the_named_variables"
     ELSE IF \E v \in Named : f[v] \notin Vals(v) THEN "Solution.value_outside_domain"
     ELSE IF ~\E a \in sols : \A v \in Named : a[v] = f[v] THEN "Solution.violates_constraint"
     ELSE ""
SolWit(s) ==
  LET f == [v \in {s[i][1] : i \in 1..Len(s)} |-> s[CHOOSE i \in 1..Len(s) : s[i][1] = v][2]]
      ext == {a \in All : \A v \in Named \cap DOMAIN f : a[v] = f[v]}
  IN IF ext = {} THEN {} ELSE
     \* shapes violated by every extension (constraints over unnamed variables are read existentially)
     {sh \in {ShapeOf(T.cons[i]) : i \in 1..Len(T.cons)} : \A a \in ext : sh \in ViolatedShapes(a)}
HintOK(h) == \A i \in 1..Len(h) : h[i][1] \in 1..NV /\ h[i][2] \in Vals(h[i][1])
Compatible(h) == {a \in sols : \A i \in 1..Len(h) : (h[i][1] \in 1..NV /\ h[i][2] \in Vals(h[i][1])) => a[h[i][1]] = h[i][2]}
SolveStep(e) ==
  IF e.e = "raise" THEN Fail("Raise." \o e.what) /\ UNCHANGED wit
  ELSE IF e.e = "noreturn" THEN Fail("NoReturn") /\ UNCHANGED wit
  ELSE
  LET bad == {i \in 1..Len(e.sols) : SolCheck(e.sols[i]) # ""}
  IN IF bad # {} THEN LET i == CHOOSE j \in bad : \A k \in bad : j <= k
                      IN Fail(SolCheck(e.sols[i])) /\ wit' = SolWit(e.sols[i]) \cup {"solver:" \o e.path}
     ELSE IF e.status = "INFEASIBLE" /\ sols # {} THEN
          (IF Compatible(e.hints) = {} THEN Fail("ReturnInfeasible.only_because_of_hint") /\ wit' = {"solver:" \o e.path}
           ELSE Fail("ReturnInfeasible.model_is_satisfiable") /\ wit' = {T.cons[i].shape : i \in 1..Len(T.cons)} \cup {"solver:" \o e.path})
     ELSE IF e.status = "INFEASIBLE" /\ Len(e.sols) > 0 THEN Fail("ReturnInfeasible.with_solution") /\ UNCHANGED wit
     ELSE IF e.status \in {"OPTIMAL", "FEASIBLE"} /\ Len(e.sols) = 0 THEN Fail("ReturnOptimal.no_solution") /\ UNCHANGED wit
     ELSE IF e.status \notin {"OPTIMAL", "FEASIBLE", "INFEASIBLE", "MAX_ITER"} THEN Fail("Return.unexpected_status") /\ UNCHANGED wit
     ELSE Pass /\ UNCHANGED wit

Step == /\ ok /\ l' = l + 1 /\ tid' = tid /\ UNCHANGED sols
        /\ IF T.kind = "enc" THEN l = 1 /\ EncStep
           ELSE l <= Len(T.events) /\ SolveStep(T.events[l])
Spec == Init /\ [][Step]_vars
Done == IF T.kind = "enc" THEN l = 2 ELSE l = Len(T.events) + 1
Report == (Done \/ ~ok) =>
            PrintT(ToJson([tid |-> tid, ok |-> ok, why |-> why, l |-> l, wit |-> wit, nsol |-> Cardinality(sols), div |-> {}]))
=========================================================================
