CONSTANT N = 3
CONSTANT Hi = 3
SPECIFICATION Spec
INVARIANT EvalTwin
INVARIANT CircuitTwin
INVARIANT CumulTwin
INVARIANT NoOverlapTwin
CHECK_DEADLOCK FALSE
