---------------------------- MODULE CpTwin ----------------------------
(* Oracle twins for the CP semantics, on every assignment over small domains:                *)
(*  Eval = EvalFlat for a family of expression shapes; IsCircuit = IsCircuitTwin;            *)
(*  Cumulative via interval scan = pairwise/time-point definition.                           *)
EXTENDS Cp, TLC
CONSTANTS N, Hi
Lo == -1
VARIABLE asg
Init == asg \in [1..N -> Lo..Hi]
Next == UNCHANGED asg
Spec == Init /\ [][Next]_asg
V(i) == [k |-> "var", v |-> i]
K(c) == [k |-> "const", c |-> c]
Shapes == { [k |-> "add", l |-> V(1), r |-> V(2)],
            [k |-> "sub", l |-> V(1), r |-> [k |-> "add", l |-> V(2), r |-> K(3)]],
            [k |-> "mul", l |-> [k |-> "sub", l |-> V(1), r |-> V(2)], c |-> -2],
            [k |-> "rsub", l |-> [k |-> "mul", l |-> V(3), c |-> 3], c |-> 4],
            [k |-> "add", l |-> K(-1), r |-> [k |-> "rsub", l |-> [k |-> "add", l |-> V(1), r |-> V(1)], c |-> 0]] }
EvalTwin == \A e \in Shapes : Eval(e, asg) = EvalFlat(e, asg)
Seq123 == [i \in 1..N |-> i]
CircuitTwin == IsCircuit(Seq123, asg) = IsCircuitTwin(Seq123, asg)
Durs == [i \in 1..N |-> 1 + (i % 2)]
Dems == [i \in 1..N |-> i]
CumulTwin == \A cap \in 1..4 :
   Cumulative(Seq123, Durs, Dems, cap, asg) =
     (\A t \in (Lo - 1)..(Hi + 3) : Load(Seq123, Durs, Dems, asg, t) <= cap)
NoOverlapTwin == NoOverlap(Seq123, Durs, asg) =
     (\A t \in (Lo - 1)..(Hi + 3) : Cardinality({i \in 1..N : asg[i] <= t /\ t < asg[i] + Durs[i]}) <= 1)
========================================================================
