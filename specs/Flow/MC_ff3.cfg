CONSTANT N = 3
CONSTANT MaxCap = 2
CONSTANT CSet <- CZero
CONSTANT Alg = "ff"
CONSTANT Bug = "none"
SPECIFICATION Spec
INVARIANT FlowOK
INVARIANT MaxAtEnd
INVARIANT SspNoNegCycle
CHECK_DEADLOCK FALSE
