---------------------------- MODULE FlowAlgs ----------------------------
(* Ford-Fulkerson (max_flow) and successive shortest paths (min_cost_flow) as transition       *)
(* systems over ALL networks on N nodes with capacities in 0..MaxCap on every ordered pair     *)
(* (source 0, sink N-1; arcs into the source and out of the sink included), costs in CSet.     *)
(*  Augment: push any 0 < delta <= bottleneck along ANY simple residual path (reverse flow is  *)
(*           cancelled first, as the code does); Terminate: no residual path.                  *)
(*  Theorems: capacity and conservation always; at termination value = MinCut; for "ssp"       *)
(*  (cheapest path each time) no negative residual cycle ever appears and the final cost is    *)
(*  minimal among all flows of that value (enumeration).                                       *)
EXTENDS FlowDefs, TLC
CONSTANTS N, MaxCap, CSet, Alg, Bug
CNeg == {-1, 0, 2}
CPos == {0, 1}
CZero == {0}
CTwo == {-1, 1}
Pairs == {p \in Nodes(N) \X Nodes(N) : p[1] # p[2]}
VARIABLES cap, cost, f, done, usedrev
vars == <<cap, cost, f, done, usedrev>>
s == 0
t == N - 1
A == LET S == {p \in Pairs : cap[p] > 0}
         RECURSIVE G(_, _)
         G(T, acc) == IF T = {} THEN acc ELSE LET p == CHOOSE q \in T : TRUE IN G(T \ {p}, Append(acc, <<p[1], p[2], cap[p], cost[p]>>))
     IN G(S, <<>>)
Init == /\ cap \in [Pairs -> 0..MaxCap]
        /\ cost \in [Pairs -> CSet]
        /\ f = [p \in Nodes(N) \X Nodes(N) |-> 0] /\ done = FALSE /\ usedrev = FALSE
R(u, v) == (IF u # v THEN cap[<<u, v>>] ELSE 0) - f[<<u, v>>] + f[<<v, u>>]
\* residual arcs the search may follow; the "forward_keys_only" bug follows only pairs with positive capacity
Usable(u, v) == u # v /\ R(u, v) > 0 /\ (Bug # "forward_keys_only" \/ cap[<<u, v>>] > 0)
SimplePaths == LET RECURSIVE Ext(_)
                   Ext(P) == LET Q == P \cup {Append(p, v) : p \in {q \in P : q[Len(q)] # t}, v \in Nodes(N)}
                                 Q2 == {p \in Q : Len(p) = 1 \/ (Usable(p[Len(p) - 1], p[Len(p)]) /\ \A i \in 1..(Len(p) - 1) : p[i] # p[Len(p)])}
                             IN IF Q2 = P THEN P ELSE Ext(Q2)
               IN {p \in Ext({<<s>>}) : p[Len(p)] = t}
Bottleneck(p) == LET vals == {R(p[i], p[i + 1]) : i \in 1..(Len(p) - 1)} IN CHOOSE m \in vals : \A x \in vals : m <= x
PathCost(p) == SumSeq(LAMBDA i : IF f[<<p[i + 1], p[i]>>] > 0 THEN -cost[<<p[i + 1], p[i]>>] ELSE cost[<<p[i], p[i + 1]>>], Len(p) - 1)
Push(p, d) == [q \in Nodes(N) \X Nodes(N) |->
                 IF \E i \in 1..(Len(p) - 1) : q = <<p[i + 1], p[i]>> THEN (IF f[q] >= d THEN f[q] - d ELSE 0)
                 ELSE IF \E i \in 1..(Len(p) - 1) : q = <<p[i], p[i + 1]>> THEN (IF f[<<q[2], q[1]>>] >= d THEN f[q] ELSE f[q] + d - f[<<q[2], q[1]>>])
                 ELSE f[q]]
Augment == /\ ~done /\ SimplePaths # {}
           /\ \E p \in SimplePaths :
                /\ (Alg = "ssp" => \A q \in SimplePaths : PathCost(p) <= PathCost(q))
                /\ \E d \in 1..Bottleneck(p) : f' = Push(p, d)
                /\ usedrev' = (usedrev \/ \E i \in 1..(Len(p) - 1) : cap[<<p[i], p[i + 1]>>] = 0)
           /\ UNCHANGED <<cap, cost, done>>
Terminate == ~done /\ SimplePaths = {} /\ done' = TRUE /\ UNCHANGED <<cap, cost, f, usedrev>>
Next == Augment \/ Terminate
Spec == Init /\ [][Next]_vars
Value == Net(N, f, t)
FlowOK == PairFeasible(N, A, f) /\ Conserves(N, f, s, t) /\ Value = -Net(N, f, s)
MaxAtEnd == done => Value = MinCut(N, A, s, t)
\* min-cost: the per-arc flow (one arc per pair here) never has a negative residual cycle, hence is optimal for its value
X == [i \in 1..Len(A) |-> f[<<A[i][1], A[i][2]>>]]
Zero == [i \in 1..Len(A) |-> 0]
SspNoNegCycle == (Alg = "ssp" /\ NoNegCycle(N, ResArcs(A, Zero))) => NoNegCycle(N, ResArcs(A, X))
\* certificate theorem on the whole scope: for EVERY feasible per-arc flow, "no negative residual cycle" <=> minimal cost
\* among the flows with the same node balances (enumeration)
AllFlows == {x \in [1..Len(A) -> 0..MaxCap] : \A i \in 1..Len(A) : x[i] <= A[i][3]}
SameBalance(x, y) == \A v \in Nodes(N) : ArcNet(A, x, v) = ArcNet(A, y, v)
CertOK == \A x \in AllFlows : NoNegCycle(N, ResArcs(A, x)) = (\A y \in AllFlows : SameBalance(x, y) => ArcCost(A, x) <= ArcCost(A, y))
\* coverage goal: some behaviour needs a pure reverse residual arc (checked as an expected violation)
NeverUsesReverseArc == ~usedrev
=========================================================================
