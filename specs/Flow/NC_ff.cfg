CONSTANT N = 4
CONSTANT MaxCap = 1
CONSTANT CSet <- CZero
CONSTANT Alg = "ff"
CONSTANT Bug = "forward_keys_only"
SPECIFICATION Spec
INVARIANT FlowOK
INVARIANT MaxAtEnd
INVARIANT SspNoNegCycle
CHECK_DEADLOCK FALSE
