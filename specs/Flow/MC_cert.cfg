CONSTANT N = 3
CONSTANT MaxCap = 1
CONSTANT CSet <- CTwo
CONSTANT Alg = "none"
CONSTANT Bug = "none"
SPECIFICATION Spec
INVARIANT CertOK
CHECK_DEADLOCK FALSE
