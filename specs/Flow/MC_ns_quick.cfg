CONSTANT NN = 3
CONSTANT NA = 2
CONSTANT MaxCap = 2
CONSTANT MaxSup = 1
CONSTANT CSet <- C01
CONSTANT Bug = "none"
SPECIFICATION Spec
INVARIANT Bounds
INVARIANT Conservation
INVARIANT TreeOK
INVARIANT NonBasicAtBound
INVARIANT Final
CHECK_DEADLOCK FALSE
