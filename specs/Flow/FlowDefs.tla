---------------------------- MODULE FlowDefs ----------------------------
(* Flow networks: arcs are a sequence of <<u, v, cap, cost>> over nodes 0..n-1 (parallel and  *)
(* anti-parallel arcs allowed; an arc is identified by its index).                            *)
EXTENDS Integers, FiniteSets, Sequences
INF == 100000000
Nodes(n) == 0..(n - 1)
SumSeq(f(_), k) == LET RECURSIVE G(_)
                       G(i) == IF i > k THEN 0 ELSE f(i) + G(i + 1)
                   IN G(1)
\* pooled capacity of the ordered pair (u, v)
PCap(A, u, v) == SumSeq(LAMBDA i : IF A[i][1] = u /\ A[i][2] = v THEN A[i][3] ELSE 0, Len(A))
\* ---- pooled flows: f is a function on ordered pairs
Net(n, f, v) == SumSeq(LAMBDA i : f[<<i - 1, v>>], n) - SumSeq(LAMBDA i : f[<<v, i - 1>>], n)      \* inflow - outflow
PairFeasible(n, A, f) == \A u, v \in Nodes(n) : f[<<u, v>>] >= 0 /\ f[<<u, v>>] <= PCap(A, u, v)
Conserves(n, f, s, t) == \A v \in Nodes(n) \ {s, t} : Net(n, f, v) = 0
Resid(A, f, u, v) == PCap(A, u, v) - f[<<u, v>>] + f[<<v, u>>]
RECURSIVE ResReach(_, _, _, _)
ResReach(n, A, f, S) == LET T == S \cup {v \in Nodes(n) : \E u \in S : Resid(A, f, u, v) > 0}
                        IN IF T = S THEN S ELSE ResReach(n, A, f, T)
NoAugmentingPath(n, A, f, s, t) == t \notin ResReach(n, A, f, {s})
CutCap(n, A, S) == SumSeq(LAMBDA i : IF A[i][1] \in S /\ A[i][2] \notin S THEN A[i][3] ELSE 0, Len(A))
MinCut(n, A, s, t) == LET cuts == {S \in SUBSET Nodes(n) : s \in S /\ t \notin S}
                          vals == {CutCap(n, A, S) : S \in cuts}
                      IN CHOOSE m \in vals : \A x \in vals : m <= x
\* ---- per-arc flows: x is a sequence aligned with A
ArcFeasible(A, x) == Len(x) = Len(A) /\ \A i \in 1..Len(A) : x[i] >= 0 /\ x[i] <= A[i][3]
ArcNet(A, x, v) == SumSeq(LAMBDA i : (IF A[i][2] = v THEN x[i] ELSE 0) - (IF A[i][1] = v THEN x[i] ELSE 0), Len(A))
ArcCost(A, x) == SumSeq(LAMBDA i : A[i][4] * x[i], Len(A))
\* residual arcs of a per-arc flow: forward (u,v,cost) if x<cap, backward (v,u,-cost) if x>0
ResArcs(A, x) == LET F == {i \in 1..Len(A) : x[i] < A[i][3]}  B == {i \in 1..Len(A) : x[i] > 0}
                 IN {<<A[i][1], A[i][2], A[i][4]>> : i \in F} \cup {<<A[i][2], A[i][1], -A[i][4]>> : i \in B}
\* negative cycle detection by Bellman-Ford from a virtual source (all distances start at 0)
RECURSIVE BFRounds(_, _, _)
BFRounds(R, d, k) == IF k = 0 THEN d
                     ELSE BFRounds(R, [v \in DOMAIN d |->
                            LET c == {d[a[1]] + a[3] : a \in {b \in R : b[2] = v}} \cup {d[v]}
                            IN CHOOSE m \in c : \A y \in c : m <= y], k - 1)
NoNegCycle(n, R) == LET d == BFRounds(R, [v \in Nodes(n) |-> 0], n) IN BFRounds(R, d, 1) = d
\* cheapest realisation of a pooled pair flow over the parallel arcs of that pair: fill arcs in cost order
RECURSIVE Fill(_, _, _)
Fill(A, S, amt) == IF S = {} \/ amt = 0 THEN [i \in {} |-> 0]
                   ELSE LET i == CHOOSE j \in S : \A k \in S : A[j][4] < A[k][4] \/ (A[j][4] = A[k][4] /\ j <= k)
                            put == IF amt < A[i][3] THEN amt ELSE A[i][3]
                            rest == Fill(A, S \ {i}, amt - put)
                        IN [j \in DOMAIN rest \cup {i} |-> IF j = i THEN put ELSE rest[j]]
Realise(n, A, f) == [i \in 1..Len(A) |->
                       LET S == {j \in 1..Len(A) : A[j][1] = A[i][1] /\ A[j][2] = A[i][2]}
                           r == Fill(A, S, f[<<A[i][1], A[i][2]>>])
                       IN IF i \in DOMAIN r THEN r[i] ELSE 0]
=========================================================================
