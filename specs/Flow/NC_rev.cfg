CONSTANT N = 4
CONSTANT MaxCap = 1
CONSTANT CSet <- CZero
CONSTANT Alg = "ff"
CONSTANT Bug = "none"
SPECIFICATION Spec
INVARIANT NeverUsesReverseArc
CHECK_DEADLOCK FALSE
