CONSTANT NN = 3
CONSTANT NA = 3
CONSTANT MaxCap = 1
CONSTANT MaxSup = 1
CONSTANT CSet <- C01
CONSTANT Bug = "push_wrong_way_from_upper"
SPECIFICATION Spec
INVARIANT Bounds
INVARIANT Conservation
INVARIANT TreeOK
INVARIANT NonBasicAtBound
INVARIANT Final
CHECK_DEADLOCK FALSE
