---------------------------- MODULE NsTrace ----------------------------
(* Step-level validation of network_simplex executions against the design spec NetSimplex    *)
(* (C09).  One trace = one call: the instance as the implementation extended it (original    *)
(* arcs 1..m, then one artificial big-M arc per node to/from the root node n+1), the initial  *)
(* basis, and one record per pivot with the state AFTER the pivot (flows, basis arcs,         *)
(* potentials) plus the logged choice (entering, leaving, direction, step length).            *)
(* Every record is read as NetSimplex!Pivot and checked against the invariants the design     *)
(* spec proves for every reachable state:                                                      *)
(*   Spanning    the basis is a spanning tree of the n+1 nodes                                 *)
(*   Conserve    flow conservation with the supplies at every node                             *)
(*   Bounds      0 <= flow <= capacity                                                          *)
(*   NonBasic    non-tree arcs sit at a bound                                                   *)
(*   Duals       tree arcs have reduced cost 0 under the logged potentials                      *)
(* and the action guards: the entering arc is eligible (violates optimality in the logged       *)
(* direction), the basis changes by exactly (leaving out, entering in), and the total cost      *)
(* (big-M arcs included) drops by |reduced cost| * step.                                         *)
(* All of this is diagnostic (`div`): C09 speaks about the returned flow, which FlowTrace        *)
(* decides; these guards name the first step at which an execution leaves the design.            *)
EXTENDS Integers, FiniteSets, Sequences, TLC, Json, IOUtils
Batch == JsonDeserialize(IOEnv.TRACE_FILE)
VARIABLES tid, l, cur, div
vars == <<tid, l, cur, div>>
T == Batch[tid]
NN == T.n + 1                      \* nodes 1..n, root n+1
Arcs == 1..Len(T.src)
ToSet(s) == {s[i] : i \in 1..Len(s)}
Abs(x) == IF x < 0 THEN -x ELSE x
RECURSIVE SumOver(_, _)
SumOver(S, f) == IF S = {} THEN 0 ELSE LET a == CHOOSE a \in S : TRUE IN f[a] + SumOver(S \ {a}, f)
Rc(st, a) == T.cost[a] - st.pi[T.src[a]] + st.pi[T.tgt[a]]
TotalCost(st) == SumOver(Arcs, [a \in Arcs |-> T.cost[a] * st.flow[a]])
\* nodes reachable from the root over tree arcs (undirected)
RECURSIVE Grow(_, _)
Grow(tree, R) == LET R2 == R \cup {T.tgt[a] : a \in {b \in tree : T.src[b] \in R}} \cup {T.src[a] : a \in {b \in tree : T.tgt[b] \in R}}
                 IN IF R2 = R THEN R ELSE Grow(tree, R2)
Spanning(st) == LET tr == ToSet(st.tree) IN Cardinality(tr) = T.n /\ Grow(tr, {NN}) = 1..NN
Supply(i) == IF i = NN THEN 0 - SumOver(1..T.n, [j \in 1..T.n |-> T.supplies[j]]) ELSE T.supplies[i]
Conserve(st) == \A i \in 1..T.n :
                  SumOver({a \in Arcs : T.src[a] = i}, [a \in Arcs |-> st.flow[a]])
                  - SumOver({a \in Arcs : T.tgt[a] = i}, [a \in Arcs |-> st.flow[a]]) = T.supplies[i]
Bounds(st) == \A a \in Arcs : 0 <= st.flow[a] /\ st.flow[a] <= T.cap[a]
NonBasic(st) == \A a \in Arcs \ ToSet(st.tree) : st.flow[a] = 0 \/ st.flow[a] = T.cap[a]
Duals(st) == \A a \in ToSet(st.tree) : Rc(st, a) = 0
StateGuards(st) ==
  (IF Spanning(st) THEN {} ELSE {"Basis.not_a_spanning_tree"})
  \cup (IF Conserve(st) THEN {} ELSE {"Flow.not_conserved_after_pivot"})
  \cup (IF Bounds(st) THEN {} ELSE {"Flow.outside_bounds_after_pivot"})
  \cup (IF NonBasic(st) THEN {} ELSE {"Basis.non_tree_arc_strictly_between_bounds"})
  \cup (IF ~st.exact \/ Duals(st) THEN {} ELSE {"Duals.tree_arc_with_non_zero_reduced_cost"})
PivotGuards(pre, p) ==
  LET e == p.entering  lv == p.leaving
      rc == Rc(pre, e)
      eligible == IF p.from_upper THEN pre.flow[e] = T.cap[e] /\ rc > 0 ELSE pre.flow[e] = 0 /\ rc < 0
      tr == ToSet(pre.tree)  tr2 == ToSet(p.tree)
      basis == IF lv = e THEN tr2 = tr ELSE (lv \in tr /\ e \notin tr /\ tr2 = (tr \ {lv}) \cup {e})
  IN (IF ~pre.exact \/ eligible THEN {} ELSE {"Pivot.entering_arc_not_eligible"})
     \cup (IF basis THEN {} ELSE {"Pivot.basis_change_is_not_leaving_out_entering_in"})
     \cup (IF p.delta >= 0 THEN {} ELSE {"Pivot.negative_step"})
     \cup (IF ~pre.exact \/ TotalCost(p) = TotalCost(pre) - Abs(rc) * p.delta THEN {} ELSE {"Pivot.cost_change_is_not_reduced_cost_times_step"})
Init == /\ tid \in 1..Len(Batch) /\ l = 1
        /\ cur = Batch[tid].steps[1]
        /\ div = {}
Step == /\ l <= Len(T.steps) /\ l' = l + 1 /\ UNCHANGED tid
        /\ LET p == T.steps[l] IN
           /\ cur' = p
           /\ div' = div \cup StateGuards(p) \cup (IF l = 1 THEN {} ELSE PivotGuards(cur, p))
Spec == Init /\ [][Step]_vars
\* at the end: optimality of the final basis (no eligible arc) when the call returned before its iteration limit
Final == IF T.hit_limit \/ ~cur.exact THEN {}
         ELSE IF \E a \in Arcs \ ToSet(cur.tree) : (cur.flow[a] = 0 /\ T.cap[a] > 0 /\ Rc(cur, a) < 0) \/ (cur.flow[a] = T.cap[a] /\ T.cap[a] > 0 /\ Rc(cur, a) > 0)
              THEN {"Return.basis_not_optimal"} ELSE {}
Report == (l = Len(T.steps) + 1) =>
            PrintT(ToJson([tid |-> tid, ok |-> TRUE, why |-> "", l |-> l, div |-> div \cup Final, pivots |-> Len(T.steps) - 1]))
=========================================================================
