CONSTANT N = 3
CONSTANT MaxCap = 1
CONSTANT CSet <- CTwo
CONSTANT Alg = "ssp"
CONSTANT Bug = "none"
SPECIFICATION Spec
INVARIANT FlowOK
INVARIANT MaxAtEnd
INVARIANT SspNoNegCycle
CHECK_DEADLOCK FALSE
