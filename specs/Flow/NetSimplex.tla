---------------------------- MODULE NetSimplex ----------------------------
(* Network simplex at design level (second algorithm of C09), over ALL transshipment problems   *)
(* on NN nodes with arcs chosen in Init (capacities 0..MaxCap, costs in CSet, balanced         *)
(* supplies in -MaxSup..MaxSup).  As in network_simplex.py an artificial root (node NN) is      *)
(* joined to every node by an artificial arc of big-M cost that initially carries the node's    *)
(* supply, and the artificial arcs form the first spanning-tree basis.                          *)
(*   State: flow per arc, basis (set of arc ids).  Potentials are the unique solution of        *)
(*   "reduced cost 0 on basic arcs" with pi[root] = 0.                                          *)
(*   Pivot: ANY non-basic arc whose reduced cost has the improving sign enters; flow is pushed   *)
(*   round the unique cycle it closes in the tree by the largest admissible amount; ANY arc of   *)
(*   the cycle that becomes tight leaves (possibly the entering arc itself).                     *)
(* Invariants: conservation with the artificial arcs; bounds; the basis is a spanning tree;     *)
(* non-basic arcs sit at a bound.  At termination (no entering arc): infeasible iff artificial  *)
(* flow remains, iff no feasible flow exists (enumeration); otherwise the cost is minimal       *)
(* (enumeration of all feasible flows).                                                         *)
EXTENDS FlowDefs, TLC
CONSTANTS NN, NA, MaxCap, MaxSup, CSet, Bug
C01 == {0, 1}
C02 == {0, 1, 3}
Root == NN
PairsAll == {p \in Nodes(NN) \X Nodes(NN) : p[1] # p[2]}
VARIABLES arcs, sup, flow, basis, done
vars == <<arcs, sup, flow, basis, done>>
\* arc ids 1..NA are the original arcs, NA+1..NA+NN the artificial ones (node v-1 <-> root)
BigM == 50
Src(i) == IF i <= NA THEN arcs[i][1] ELSE (IF sup[i - NA] >= 0 THEN i - NA - 1 ELSE Root)
Tgt(i) == IF i <= NA THEN arcs[i][2] ELSE (IF sup[i - NA] >= 0 THEN Root ELSE i - NA - 1)
Cap(i) == IF i <= NA THEN arcs[i][3] ELSE (IF sup[i - NA] >= 0 THEN sup[i - NA] ELSE -sup[i - NA]) + 1
Cost(i) == IF i <= NA THEN arcs[i][4] ELSE BigM
Ids == 1..(NA + NN)
Abs(x) == IF x < 0 THEN -x ELSE x
Init == /\ arcs \in [1..NA -> {<<p[1], p[2], c, w>> : p \in PairsAll, c \in 0..MaxCap, w \in CSet}]
        /\ \A i, j \in 1..NA : i < j => <<arcs[i][1], arcs[i][2]>> # <<arcs[j][1], arcs[j][2]>>      \* no parallel arcs
        /\ sup \in {s \in [1..NN -> (-MaxSup)..MaxSup] : SumSeq(LAMBDA i : s[i], NN) = 0}
        /\ flow = [i \in Ids |-> IF i <= NA THEN 0 ELSE Abs(sup[i - NA])]
        /\ basis = (NA + 1)..(NA + NN) /\ done = FALSE
\* ---- tree machinery: path from a node to the root inside the basis
AllNodes == 0..NN
Adj(B, v) == {i \in B : Src(i) = v \/ Tgt(i) = v}
Other(i, v) == IF Src(i) = v THEN Tgt(i) ELSE Src(i)
RECURSIVE TreeReach(_, _)
TreeReach(B, S) == LET T == S \cup {Other(i, v) : v \in S, i \in {j \in B : Src(j) \in S \/ Tgt(j) \in S}} IN
                   LET T2 == S \cup {x \in AllNodes : \E i \in B : (Src(i) \in S /\ Tgt(i) = x) \/ (Tgt(i) \in S /\ Src(i) = x)} IN
                   IF T2 = S THEN S ELSE TreeReach(B, T2)
IsSpanningTree(B) == Cardinality(B) = NN /\ TreeReach(B, {Root}) = AllNodes
\* potentials: pi[root] = 0, cost - pi[src] + pi[tgt] = 0 on basic arcs
RECURSIVE Potentials(_, _, _)
Potentials(B, known, pi) ==
  LET nxt == {i \in B : (Src(i) \in known) # (Tgt(i) \in known)} IN
  IF nxt = {} THEN pi
  ELSE LET i == CHOOSE j \in nxt : TRUE IN
       IF Src(i) \in known
         THEN Potentials(B, known \cup {Tgt(i)}, [pi EXCEPT ![Tgt(i)] = pi[Src(i)] - Cost(i)])
         ELSE Potentials(B, known \cup {Src(i)}, [pi EXCEPT ![Src(i)] = pi[Tgt(i)] + Cost(i)])
Pi == Potentials(basis, {Root}, [v \in AllNodes |-> 0])
Rc(i) == Cost(i) - Pi[Src(i)] + Pi[Tgt(i)]
\* the tree path (as set of <<arc, direction>>, direction +1 if traversed src->tgt) from node a to node b
RECURSIVE PathTo(_, _, _, _)
PathTo(B, a, b, seen) ==
  IF a = b THEN {{}}
  ELSE UNION {{p \cup {<<i, IF Src(i) = a THEN 1 ELSE -1>>} : p \in PathTo(B, Other(i, a), b, seen \cup {a})} :
               i \in {j \in Adj(B, a) : Other(j, a) \notin seen}}
TreePath(a, b) == CHOOSE p \in PathTo(basis, a, b, {}) : TRUE
\* entering arc e; up = TRUE if its flow increases.  The cycle: e itself plus the tree path from Tgt(e) back to Src(e)
\* (for up) or from Src(e) to Tgt(e) (for down).
Enterable(e) == e \notin basis /\ ((flow[e] = 0 /\ Rc(e) < 0) \/ (flow[e] = Cap(e) /\ flow[e] > 0 /\ Rc(e) > 0))
Pivot ==
  /\ ~done
  /\ \E e \in Ids : Enterable(e) /\
       LET up == Rc(e) < 0
           path == IF up THEN TreePath(Tgt(e), Src(e)) ELSE TreePath(Src(e), Tgt(e))
           \* residual of each cycle arc in the direction of the push
           room(x) == IF x[2] = 1 THEN Cap(x[1]) - flow[x[1]] ELSE flow[x[1]]
           eroom == IF up THEN Cap(e) - flow[e] ELSE flow[e]
           rooms == {room(x) : x \in path} \cup {eroom}
           delta == CHOOSE m \in rooms : \A y \in rooms : m <= y
           pushed == [i \in Ids |-> IF i = e THEN (IF up THEN flow[i] + delta ELSE flow[i] - delta)
                                    ELSE IF <<i, 1>> \in path THEN flow[i] + delta
                                    ELSE IF <<i, -1>> \in path THEN flow[i] - delta ELSE flow[i]]
           tight == {x[1] : x \in {y \in path : room(y) = delta}} \cup (IF eroom = delta THEN {e} ELSE {})
       IN /\ flow' = (IF Bug = "push_wrong_way_from_upper" /\ ~up
                      THEN [i \in Ids |-> IF i = e THEN flow[i] - delta ELSE IF <<i, 1>> \in path THEN flow[i] - delta
                                          ELSE IF <<i, -1>> \in path THEN flow[i] + delta ELSE flow[i]]
                      ELSE pushed)
          /\ \E lv \in tight : basis' = (IF lv = e THEN basis ELSE (basis \ {lv}) \cup {e})
  /\ UNCHANGED <<arcs, sup, done>>
Stop == ~done /\ ~(\E e \in Ids : Enterable(e)) /\ done' = TRUE /\ UNCHANGED <<arcs, sup, flow, basis>>
Next == Pivot \/ Stop
Spec == Init /\ [][Next]_vars
\* ---- invariants
Bounds == \A i \in Ids : flow[i] >= 0 /\ flow[i] <= Cap(i)
NetOut(v) == SumSeq(LAMBDA i : (IF Src(i) = v THEN flow[i] ELSE 0) - (IF Tgt(i) = v THEN flow[i] ELSE 0), NA + NN)
Conservation == \A v \in Nodes(NN) : NetOut(v) = sup[v + 1]
TreeOK == IsSpanningTree(basis)
NonBasicAtBound == \A i \in Ids \ basis : flow[i] = 0 \/ flow[i] = Cap(i)
\* ---- final theorems against enumeration of all feasible flows of the original network
A4 == [i \in 1..NA |-> arcs[i]]
Feas == {x \in [1..NA -> 0..MaxCap] : (\A i \in 1..NA : x[i] <= arcs[i][3]) /\ \A v \in Nodes(NN) : -ArcNet(A4, x, v) = sup[v + 1]}
ArtFlow == SumSeq(LAMBDA i : flow[NA + i], NN)
Final == done =>
           /\ (ArtFlow > 0) = (Feas = {})
           /\ (ArtFlow = 0) => \A x \in Feas : SumSeq(LAMBDA i : arcs[i][4] * flow[i], NA) <= ArcCost(A4, x)
===========================================================================
