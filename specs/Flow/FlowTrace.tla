---------------------------- MODULE FlowTrace ----------------------------
(* Batch validation for max_flow (C08), min_cost_flow / network_simplex / solve_assignment     *)
(* (C09).  Network: n nodes, arcs <<u, v, cap, cost>>.  Returned flows are pooled per ordered  *)
(* pair: sequence of <<u, v, amount>>.                                                          *)
EXTENDS FlowDefs, TLC, Json, IOUtils
Batch == JsonDeserialize(IOEnv.TRACE_FILE)
VARIABLES tid, l, ok, why, wit
vars == <<tid, l, ok, why, wit>>
T == Batch[tid]
A == T.arcs
n == T.n
Init == tid \in 1..Len(Batch) /\ l = 1 /\ ok = TRUE /\ why = "" /\ wit = {}
PairFlow(fl) == [p \in Nodes(n) \X Nodes(n) |->
                   SumSeq(LAMBDA i : IF fl[i][1] = p[1] /\ fl[i][2] = p[2] THEN fl[i][3] ELSE 0, Len(fl))]
WellFormed(fl) == /\ \A i \in 1..Len(fl) : fl[i][1] \in Nodes(n) /\ fl[i][2] \in Nodes(n) /\ fl[i][3] > 0
                  /\ \A i, j \in 1..Len(fl) : i # j => <<fl[i][1], fl[i][2]>> # <<fl[j][1], fl[j][2]>>
\* supplies b (b[v+1] > 0 produces): feasibility via max-flow from a super source n to a super sink n+1
SuperArcs(b) == A \o [i \in 1..n |-> IF b[i] > 0 THEN <<n, i - 1, b[i], 0>> ELSE <<i - 1, n + 1, -b[i], 0>>]
TotalSupply(b) == SumSeq(LAMBDA i : IF b[i] > 0 THEN b[i] ELSE 0, n)
FeasibleRouting(b) == MinCut(n + 2, SuperArcs(b), n, n + 1) >= TotalSupply(b)
\* witness predicates for known findings (DESIGN §4.3)
ParallelDifferentCost == \E i, j \in 1..Len(A) : i # j /\ A[i][1] = A[j][1] /\ A[i][2] = A[j][2] /\ A[i][4] # A[j][4]
AntiParallel == \E i, j \in 1..Len(A) : A[i][1] = A[j][2] /\ A[i][2] = A[j][1] /\ A[i][1] # A[i][2]
Wit == (IF ParallelDifferentCost THEN {"ParallelArcsWithDifferentCosts"} ELSE {}) \cup (IF AntiParallel THEN {"AntiParallelArcs"} ELSE {})

MaxFlowCheck(e) ==
  LET f == PairFlow(e.flows) s == T.s t == T.t IN
  IF ~WellFormed(e.flows) THEN "Flow.malformed_or_non_positive_entry"
  ELSE IF ~PairFeasible(n, A, f) THEN "Flow.exceeds_capacity"
  ELSE IF ~Conserves(n, f, s, t) THEN "Flow.not_conserved"
  ELSE IF Net(n, f, t) # e.value THEN "Flow.objective_is_not_net_inflow_at_sink"
  ELSE IF -Net(n, f, s) # e.value THEN "Flow.objective_is_not_net_outflow_at_source"
  ELSE IF ~NoAugmentingPath(n, A, f, s, t) THEN "MaxFlow.augmenting_path_remains"
  ELSE IF n <= 10 /\ e.value # MinCut(n, A, s, t) THEN "MaxFlow.value_differs_from_min_cut"
  ELSE ""
\* min-cost answers for a supply vector b
\* domain of C09: no negative-cost cycle among the arcs with positive capacity (statement: "negative-cost arcs without negative cycles")
InDomain == NoNegCycle(n, {<<A[i][1], A[i][2], A[i][4]>> : i \in {j \in 1..Len(A) : A[j][3] > 0}})
CostCheck(e, b) ==
  IF ~InDomain THEN ""
  ELSE IF e.status = "INFEASIBLE" THEN (IF FeasibleRouting(b) THEN "Infeasible.but_feasible_flow_exists" ELSE "")
  \* MAX_ITER / FEASIBLE are the answers of a call stopped by ITS iteration limit; a call that was given no limit (default 10^6
  \* iterations on an instance of a few arcs) has to answer - burning the default budget means it cycled
  ELSE IF e.status \in {"MAX_ITER", "FEASIBLE"} /\ "limited" \in DOMAIN e /\ ~e.limited THEN "Return.default_iteration_budget_exhausted_on_a_small_instance"
  ELSE IF e.status = "MAX_ITER" THEN ""
  ELSE IF e.status \notin {"OPTIMAL", "FEASIBLE"} THEN "Return.unexpected_status"       \* FEASIBLE: stopped by an iteration limit
  ELSE LET f == PairFlow(e.flows) x == Realise(n, A, f) IN
       IF ~WellFormed(e.flows) THEN "Flow.malformed_or_non_positive_entry"
       ELSE IF ~PairFeasible(n, A, f) THEN "Flow.exceeds_capacity"
       ELSE IF \E v \in Nodes(n) : -Net(n, f, v) # b[v + 1] THEN "Flow.supplies_not_met_exactly"
       ELSE IF ~e.exact THEN "Cost.not_representable"
       ELSE IF e.cost # ArcCost(A, x) THEN "Cost.objective_is_not_cost_of_the_flow"
       ELSE IF e.status = "OPTIMAL" /\ ~NoNegCycle(n, ResArcs(A, x)) THEN "Cost.not_minimum(negative_residual_cycle)"
       ELSE ""
\* assignment: matrix C (rows x cols), assignment seq with -1; optimum by enumeration of injections of the smaller side
Rws == Len(T.matrix)
Cls == IF Rws = 0 THEN 0 ELSE Len(T.matrix[1])
Injections(S, U) == {g \in [S -> U] : \A a, b \in S : a # b => g[a] # g[b]}
AssignOpt == LET small == IF Rws <= Cls THEN 1..Rws ELSE 1..Cls
                 big == IF Rws <= Cls THEN 1..Cls ELSE 1..Rws
                 val(g) == SumSeq(LAMBDA i : IF i \in small THEN (IF Rws <= Cls THEN T.matrix[i][g[i]] ELSE T.matrix[g[i]][i]) ELSE 0, Rws + Cls)
                 vals == {val(g) : g \in Injections(small, big)}
             IN CHOOSE m \in vals : \A x \in vals : m <= x
AssignCheck(e) ==
  LET a == e.assignment
      used == {i \in 1..Len(a) : a[i] >= 0}
  IN IF e.status # "OPTIMAL" THEN "Return.unexpected_status"
     ELSE IF Len(a) # Rws \/ \E i \in used : a[i] >= Cls THEN "Assignment.malformed"
     ELSE IF \E i, j \in used : i # j /\ a[i] = a[j] THEN "Assignment.column_used_twice"
     ELSE IF Cardinality(used) # (IF Rws <= Cls THEN Rws ELSE Cls) THEN "Assignment.wrong_number_of_pairs"
     ELSE IF ~e.exact \/ e.cost # SumSeq(LAMBDA i : IF i \in used THEN T.matrix[i][a[i] + 1] ELSE 0, Rws) THEN "Assignment.objective_is_not_sum_of_entries"
     ELSE IF e.cost # AssignOpt THEN "Assignment.not_optimal"
     ELSE ""
Unit(v, amt) == [i \in 1..n |-> IF i - 1 = T.s THEN amt ELSE IF i - 1 = T.t THEN -amt ELSE 0]
Check(e) ==
  IF e.e = "raise" THEN "Raise." \o e.what
  ELSE IF e.e = "noreturn" THEN (IF T.kind = "mincost" /\ ~InDomain THEN "" ELSE "NoReturn")
  ELSE IF e.fn = "max_flow" THEN MaxFlowCheck(e)
  ELSE IF e.fn = "min_cost_flow" THEN CostCheck(e, Unit(0, T.demand))
  ELSE IF e.fn = "network_simplex" THEN CostCheck(e, T.supplies)
  ELSE AssignCheck(e)
Step == /\ ok /\ l <= Len(T.events) /\ l' = l + 1 /\ UNCHANGED tid
        /\ LET w == Check(T.events[l]) IN
           IF w = "" THEN UNCHANGED <<ok, why, wit>> ELSE ok' = FALSE /\ why' = T.events[l].fn \o ":" \o w /\ wit' = (IF T.kind = "assign" THEN {} ELSE Wit)
Spec == Init /\ [][Step]_vars
Report == (l = Len(T.events) + 1 \/ ~ok) => PrintT(ToJson([tid |-> tid, ok |-> ok, why |-> why, l |-> l, wit |-> wit, div |-> {}]))
==========================================================================
