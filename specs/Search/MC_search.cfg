CONSTANT P = 3
CONSTANT V = 2
CONSTANT MaxEvals = 4
CONSTANT Bug = "none"
SPECIFICATION Spec
INVARIANT RecordedIsTrue
INVARIANT BestOfAllSeen
INVARIANT CountRight
INVARIANT ReturnFaithful
CHECK_DEADLOCK FALSE
