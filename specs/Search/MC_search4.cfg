CONSTANT P = 4
CONSTANT V = 2
CONSTANT MaxEvals = 5
CONSTANT Bug = "none"
SPECIFICATION Spec
INVARIANT RecordedIsTrue
INVARIANT BestOfAllSeen
INVARIANT CountRight
INVARIANT ReturnFaithful
CHECK_DEADLOCK FALSE
