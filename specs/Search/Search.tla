---------------------------- MODULE Search ----------------------------
(* Bookkeeping of the trajectory heuristics (anneal, tabu_search, lns, alns and - per           *)
(* individual - the population methods) at design level (DESIGN §5 C19).                       *)
(* Points 1..P, ANY objective table f : Points -> 0..V (plateaus and ties by construction),     *)
(* minimise or maximise (Evaluator applies the sign, to_user undoes it).  Any proposal          *)
(* sequence; an improving candidate must be accepted, a non-improving one may be accepted or    *)
(* rejected (every acceptance rule / random draw is one resolution).                            *)
EXTENDS Integers, FiniteSets, Sequences, TLC
CONSTANTS P, V, MaxEvals, Bug
Points == 1..P
VARIABLES f, maximize, cur, best, bestv, nevals, seen, status, robj
vars == <<f, maximize, cur, best, bestv, nevals, seen, status, robj>>
Sign == IF maximize THEN -1 ELSE 1
G(p) == Sign * f[p]                      \* internal (signed) value: smaller is better
Init == /\ f \in [Points -> 0..V] /\ maximize \in BOOLEAN
        /\ cur = 0 /\ best = 0 /\ bestv = 0 /\ nevals = 0 /\ seen = {} /\ status = "start" /\ robj = 0
Keep == UNCHANGED <<f, maximize>>
Start == /\ status = "start" /\ \E p \in Points : cur' = p /\ best' = p /\ bestv' = G(p) /\ seen' = {p}
         /\ nevals' = 1 /\ status' = "run" /\ UNCHANGED robj /\ Keep
Propose == /\ status = "run" /\ nevals < MaxEvals
           /\ \E q \in Points : \E accept \in BOOLEAN :
                /\ (G(q) < G(cur) => (accept \/ Bug = "improving_move_may_be_rejected"))
                /\ nevals' = nevals + 1 /\ seen' = seen \cup {q}
                /\ IF accept THEN /\ cur' = q
                                  /\ IF G(q) < bestv THEN best' = q /\ bestv' = G(q) ELSE UNCHANGED <<best, bestv>>
                   ELSE UNCHANGED <<cur, best, bestv>>
           /\ UNCHANGED <<status, robj>> /\ Keep
Return == /\ status = "run" /\ status' = "done"
          /\ robj' = (IF Bug = "to_user_forgets_sign" THEN bestv ELSE Sign * bestv)
          /\ UNCHANGED <<cur, best, bestv, nevals, seen>> /\ Keep
Next == Start \/ Propose \/ Return
Spec == Init /\ [][Next]_vars
RecordedIsTrue == status # "start" => bestv = G(best)
BestOfAllSeen == status # "start" => (best \in seen /\ \A p \in seen : bestv <= G(p))
CountRight == status # "start" => nevals >= Cardinality(seen)
ReturnFaithful == status = "done" =>
                    /\ robj = f[best]                                                   \* user's sign
                    /\ \A p \in seen : IF maximize THEN robj >= f[p] ELSE robj <= f[p]
=======================================================================
