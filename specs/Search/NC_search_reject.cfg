CONSTANT P = 3
CONSTANT V = 2
CONSTANT MaxEvals = 4
CONSTANT Bug = "improving_move_may_be_rejected"
SPECIFICATION Spec
INVARIANT RecordedIsTrue
INVARIANT BestOfAllSeen
INVARIANT CountRight
INVARIANT ReturnFaithful
CHECK_DEADLOCK FALSE
