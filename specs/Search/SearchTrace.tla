---------------------------- MODULE SearchTrace ----------------------------
(* Batch validation for C19: a monitor over the observable history of each solver run.          *)
(* The user's objective is a recording proxy around an integer-valued function, so every        *)
(* evaluation is an event <<point key, value>>.  One trace = one solver configuration with three *)
(* runs: run 1, run 2 (same seed / same input: must be identical), run 3 (the mirror problem:    *)
(* maximise f  vs  minimise -f ).                                                                *)
EXTENDS Integers, Sequences, FiniteSets, TLC, Json, IOUtils
Batch == JsonDeserialize(IOEnv.TRACE_FILE)
VARIABLES tid, l, ok, why
vars == <<tid, l, ok, why>>
T == Batch[tid]
Init == tid \in 1..Len(Batch) /\ l = 1 /\ ok = TRUE /\ why = ""
Abs(x) == IF x < 0 THEN -x ELSE x
RunCheck(r, minimize) ==
  IF r.e = "raise" THEN "Raise." \o r.what
  ELSE IF r.e = "noreturn" THEN "NoReturn"
  ELSE IF ~r.exact THEN "Return.objective_not_representable"
  ELSE IF Abs(r.obj - r.fsol) > T.objtol THEN "Return.objective_is_not_f_of_returned_point"
  ELSE IF T.group = 1 /\ r.nevals # Len(r.evals) THEN "Return.evaluations_is_not_number_of_objective_calls"
  ELSE IF T.group = 1 /\ \E i \in 1..Len(r.evals) : IF minimize THEN r.evals[i][2] < r.obj ELSE r.evals[i][2] > r.obj
          THEN "Return.worse_than_an_evaluated_candidate"
  ELSE IF T.bounded /\ \E j \in 1..Len(r.sol6) : r.sol6[j] < T.lo6[j] \/ r.sol6[j] > T.hi6[j] THEN "Return.point_outside_bounds"
  ELSE ""
Same(a, b) == a.e = b.e /\ (a.e = "ret" => a.evals = b.evals /\ a.sol = b.sol /\ a.obj = b.obj /\ a.nevals = b.nevals /\ a.status = b.status)
Mirror(a, b) == a.e = "ret" /\ b.e = "ret" /\ Len(a.evals) = Len(b.evals)
                /\ \A i \in 1..Len(a.evals) : a.evals[i][1] = b.evals[i][1] /\ a.evals[i][2] = -b.evals[i][2]
                /\ a.sol = b.sol /\ a.obj = -b.obj /\ a.nevals = b.nevals
Step == /\ ok /\ l <= 3 /\ l' = l + 1 /\ UNCHANGED tid
        /\ LET r == T.runs[l]
               w == IF l = 1 THEN RunCheck(r, T.minimize)
                    ELSE IF l = 2 THEN (IF RunCheck(r, T.minimize) # "" THEN RunCheck(r, T.minimize)
                                        ELSE IF ~Same(T.runs[1], r) THEN "Repeat.same_seed_different_run" ELSE "")
                    ELSE (IF RunCheck(r, ~T.minimize) # "" THEN "Mirror." \o RunCheck(r, ~T.minimize)
                          ELSE IF T.group = 1 /\ ~Mirror(T.runs[1], r) THEN "Mirror.not_the_mirror_image" ELSE "")
           IN IF w = "" THEN UNCHANGED <<ok, why>> ELSE ok' = FALSE /\ why' = T.solver \o ":" \o w
Spec == Init /\ [][Step]_vars
Report == (l = 4 \/ ~ok) => PrintT(ToJson([tid |-> tid, ok |-> ok, why |-> why, l |-> l, div |-> {}]))
============================================================================
