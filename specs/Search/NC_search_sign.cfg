CONSTANT P = 3
CONSTANT V = 2
CONSTANT MaxEvals = 4
CONSTANT Bug = "to_user_forgets_sign"
SPECIFICATION Spec
INVARIANT RecordedIsTrue
INVARIANT BestOfAllSeen
INVARIANT CountRight
INVARIANT ReturnFaithful
CHECK_DEADLOCK FALSE
