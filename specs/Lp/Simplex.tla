---------------------------- MODULE Simplex ----------------------------
(* Design spec for C03: the exact LP oracle with its duality twin, and primal simplex as a    *)
(* transition system over bases of [A I], for ALL LPs with m = n = 2 and data in DSet:        *)
(*   Start    : phase 1 delivers ANY feasible basis (or INFEASIBLE iff there is none)         *)
(*   Pivot    : ANY entering column with negative reduced cost and ANY leaving column such    *)
(*              that the new basis is feasible and the objective does not get worse (Bland is *)
(*              one resolution of this nondeterminism)                                        *)
(*   Optimal  : declared iff all reduced costs are >= 0 (exact, by Cramer)                    *)
(*   Unbounded: declared iff some entering column with negative reduced cost has no leaving   *)
(*              column (all entries of its basis column <= 0)                                 *)
(* Theorems checked: the declared status equals LpStatus and the declared optimum equals      *)
(* MinObj and DualOpt (strong duality).                                                       *)
EXTENDS Lin, TLC
CONSTANTS DSet, Bug
M2 == 2
N2 == 2
D3 == {-1, 0, 2}
D4 == {-1, 0, 1, 2}
VARIABLES A, b, c, B, status
vars == <<A, b, c, B, status>>
Init == /\ A \in [1..M2 -> [1..N2 -> DSet]] /\ b \in [1..M2 -> DSet] /\ c \in [1..N2 -> DSet]
        /\ B = <<>> /\ status = "start"
Keep == UNCHANGED <<A, b, c>>
Start == /\ status = "start"
         /\ IF FeasBases(A, b, M2, N2) = {} THEN status' = "INFEASIBLE" /\ B' = B
            ELSE status' = "run" /\ B' \in FeasBases(A, b, M2, N2)
         /\ Keep
\* d * (reduced cost of column j) for basis Bs; its sign is sign(d) * sign(value)
RcNum(Bs, j) == LET Mx == BasisMat(A, M2, N2, Bs)  d == Det(Mx)
                    cj == IF j <= N2 THEN c[j] ELSE 0
                    cb(k) == IF Bs[k] <= N2 THEN c[Bs[k]] ELSE 0
                    RECURSIVE S(_)
                    S(k) == IF k > M2 THEN 0 ELSE cb(k) * Det(ReplaceCol(Mx, k, Col(A, M2, N2, j))) + S(k + 1)
                IN (d * cj - S(1)) * Sgn(d)
NonBasic(Bs) == (1..(N2 + M2)) \ {Bs[k] : k \in 1..M2}
Improving(Bs) == {j \in NonBasic(Bs) : RcNum(Bs, j) < 0}
\* entries of the basis column B^-1 A_j (times |d|)
ColEntry(Bs, j, k) == LET Mx == BasisMat(A, M2, N2, Bs) IN Det(ReplaceCol(Mx, k, Col(A, M2, N2, j))) * Sgn(Det(Mx))
Swap(Bs, k, j) == SetToSortedSeq(({Bs[i] : i \in 1..M2} \ {Bs[k]}) \cup {j})
Pivot == /\ status = "run"
         /\ \E j \in Improving(B) : \E k \in 1..M2 :
              LET B2 == Swap(B, k, j) IN
              /\ (Bug = "ratio_test_ignored" \/ IsFeasBasis(A, b, M2, N2, B2))
              /\ Det(BasisMat(A, M2, N2, B2)) # 0
              /\ (Bug = "ratio_test_ignored" \/ ~Less(ObjAt(A, b, c, M2, N2, B), ObjAt(A, b, c, M2, N2, B2)))
              /\ B' = B2
         /\ UNCHANGED status /\ Keep
DeclareOptimal == status = "run" /\ Improving(B) = {} /\ status' = "OPTIMAL" /\ UNCHANGED B /\ Keep
DeclareUnbounded == /\ status = "run" /\ \E j \in Improving(B) : \A k \in 1..M2 : ColEntry(B, j, k) <= 0
                    /\ status' = "UNBOUNDED" /\ UNCHANGED B /\ Keep
Next == Start \/ Pivot \/ DeclareOptimal \/ DeclareUnbounded
Spec == Init /\ [][Next]_vars
BasisFeasible == status \in {"run", "OPTIMAL", "UNBOUNDED"} => IsFeasBasis(A, b, M2, N2, B)
VerdictRight == status \in {"INFEASIBLE", "OPTIMAL", "UNBOUNDED"} => status = LpStatus(A, b, c, M2, N2)
OptimumRight == status = "OPTIMAL" =>
                  LET o == ObjAt(A, b, c, M2, N2, B) IN ~Less(o, MinObj(A, b, c, M2, N2)) /\ ~Less(MinObj(A, b, c, M2, N2), o)
StrongDuality == LpStatus(A, b, c, M2, N2) = "OPTIMAL" =>
                   LET p == MinObj(A, b, c, M2, N2) q == DualOpt(A, b, c, M2, N2) IN ~Less(p, q) /\ ~Less(q, p)
NoStuck == status = "run" => ENABLED Next
========================================================================
