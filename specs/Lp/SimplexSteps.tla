---------------------------- MODULE SimplexSteps ----------------------------
(* Step-level validation of solve_lp's phase 2 against the design spec Simplex (C03).          *)
(* The driver wraps the module functions _phase2 and _pivot of solvor.simplex (no change to    *)
(* the library): for the final phase-2 run on the tableau of [A I] it records the basis the    *)
(* run starts from and, for every pivot, the (row, entering column) pair; the basis after a    *)
(* pivot is the previous one with the entering column in that row.  Every record is read as    *)
(* an action of Simplex.tla on the exact integer data:                                          *)
(*   Start    the starting basis is a feasible basis (what phase 1 must deliver)                *)
(*   Pivot    the entering column has negative reduced cost, the new basis is feasible (ratio   *)
(*            test) and the objective did not get worse                                          *)
(*   Declare  OPTIMAL only with no improving column; UNBOUNDED only with an improving column     *)
(*            whose basis column has no positive entry                                           *)
(* plus the choice rule the code documents (Bland: smallest improving index enters).            *)
(* All guards are diagnostic (`div`); the verdicts C03 names are decided by LpTrace.            *)
EXTENDS Lin, TLC, Json, IOUtils
Batch == JsonDeserialize(IOEnv.TRACE_FILE)
VARIABLES tid, l, B, div
vars == <<tid, l, B, div>>
T == Batch[tid]
A == T.A
b == T.b
m == T.m
n == T.n
c == IF T.minimize THEN T.c ELSE [j \in 1..Len(T.c) |-> -T.c[j]]
Sorted(Bs) == SetToSortedSeq({Bs[k] : k \in 1..Len(Bs)})
IsBasis(Bs) == Len(Bs) = m /\ Cardinality({Bs[k] : k \in 1..m}) = m /\ \A k \in 1..m : Bs[k] \in 1..(n + m)
\* sign-normalised reduced cost of column j for the (sorted) basis S
RcNum(S, j) == LET Mx == BasisMat(A, m, n, S)  d == Det(Mx)
                   cj == IF j <= n THEN c[j] ELSE 0
                   cb(k) == IF S[k] <= n THEN c[S[k]] ELSE 0
                   RECURSIVE Sm(_)
                   Sm(k) == IF k > m THEN 0 ELSE cb(k) * Det(ReplaceCol(Mx, k, Col(A, m, n, j))) + Sm(k + 1)
               IN (d * cj - Sm(1)) * Sgn(d)
NonBasic(S) == (1..(n + m)) \ {S[k] : k \in 1..m}
Improving(S) == {j \in NonBasic(S) : RcNum(S, j) < 0}
ColEntry(S, j, k) == LET Mx == BasisMat(A, m, n, S) IN Det(ReplaceCol(Mx, k, Col(A, m, n, j))) * Sgn(Det(Mx))
Init == /\ tid \in 1..Len(Batch) /\ l = 1 /\ B = Batch[tid].basis0
        \* (a redundant row can keep an artificial column basic at level zero after phase 1: such a start is outside the [A I]
        \*  basis model, every guard is skipped for it)
        /\ div = (IF \/ \E k \in 1..Len(Batch[tid].basis0) : Batch[tid].basis0[k] > Batch[tid].n + Batch[tid].m
                     \/ (/\ Len(Batch[tid].basis0) = Batch[tid].m
                         /\ IsFeasBasis(Batch[tid].A, Batch[tid].b, Batch[tid].m, Batch[tid].n,
                                        SetToSortedSeq({Batch[tid].basis0[k] : k \in 1..Len(Batch[tid].basis0)})))
                  THEN {} ELSE {"Start.basis_not_feasible"})
Step == /\ l <= Len(T.pivots) /\ l' = l + 1 /\ UNCHANGED tid
        /\ LET row == T.pivots[l][1]  j == T.pivots[l][2]
               S == Sorted(B)
               B2 == [B EXCEPT ![row] = j]
               S2 == Sorted(B2)
               imp == IF IsBasis(B) THEN Improving(S) ELSE {}
           IN /\ B' = B2
              /\ div' = div
                   \cup (IF ~IsBasis(B) \/ j \in imp THEN {} ELSE {"Pivot.entering_column_not_improving"})
                   \cup (IF ~IsBasis(B) \/ imp = {} \/ j = CHOOSE x \in imp : \A y \in imp : x <= y THEN {} ELSE {"Bland.entering_column_not_smallest_improving_index"})
                   \cup (IF IsBasis(B2) /\ IsFeasBasis(A, b, m, n, S2) THEN {} ELSE {"Pivot.new_basis_not_feasible(ratio_test)"})
                   \cup (IF IsBasis(B) /\ IsBasis(B2) /\ IsFeasBasis(A, b, m, n, S2) /\ IsFeasBasis(A, b, m, n, S)
                            /\ Less(ObjAt(A, b, c, m, n, S), ObjAt(A, b, c, m, n, S2)) THEN {"Pivot.objective_got_worse"} ELSE {})
Spec == Init /\ [][Step]_vars
Final == LET S == Sorted(B) IN
         IF ~IsBasis(B) \/ ~IsFeasBasis(A, b, m, n, S) THEN {}
         ELSE IF T.status = "OPTIMAL" /\ Improving(S) # {} THEN {"Declare.optimal_with_improving_column"}
         ELSE IF T.status = "UNBOUNDED" /\ ~(\E j \in Improving(S) : \A k \in 1..m : ColEntry(S, j, k) <= 0) THEN {"Declare.unbounded_without_unbounded_ray"}
         ELSE {}
Report == (l = Len(T.pivots) + 1) =>
            PrintT(ToJson([tid |-> tid, ok |-> TRUE, why |-> "", l |-> l, div |-> div \cup Final, pivots |-> Len(T.pivots)]))
=============================================================================
