---------------------------- MODULE LpExport ----------------------------
(* Spec -> code: every LP of the design scope (m = n = 2, data in {-1,0,2}) with the verdict   *)
(* the exact oracle expects for minimisation.                                                  *)
EXTENDS Lin, SequencesExt, TLC, Json, IOUtils
D == {-1, 0, 2}
Case(A, b, c) == [A |-> A, b |-> b, c |-> c, smin |-> LpStatus(A, b, c, 2, 2)]
ASSUME ndJsonSerialize(IOEnv.EXPORT_FILE, SetToSeq({Case(A, b, c) : A \in [1..2 -> [1..2 -> D]], b \in [1..2 -> D], c \in [1..2 -> D]}))
VARIABLE x
Init == x = 0
Next == UNCHANGED x
Spec == Init /\ [][Next]_x
=========================================================================
