CONSTANT DSet <- D3
CONSTANT Bug = "ratio_test_ignored"
SPECIFICATION Spec
INVARIANT BasisFeasible
INVARIANT VerdictRight
INVARIANT OptimumRight
INVARIANT StrongDuality
INVARIANT NoStuck
CHECK_DEADLOCK FALSE
