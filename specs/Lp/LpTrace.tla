---------------------------- MODULE LpTrace ----------------------------
(* Batch validation of solve_lp and solve_lp_interior (C03) against the exact oracle of Lin.  *)
(* Data are integers; returned points are projected to units of 10^-4 (x4), objectives to     *)
(* 10^-4 (obj4) and 10^-6 (obj6).                                                             *)
EXTENDS Lin, TLC, Json, IOUtils
Batch == JsonDeserialize(IOEnv.TRACE_FILE)
VARIABLES tid, l, ok, why, orc
vars == <<tid, l, ok, why, orc>>
T == Batch[tid]
A == T.A
b == T.b
m == T.m
n == T.n
Neg(c) == [j \in 1..Len(c) |-> -c[j]]
Oracle(t) == LET AA == Batch[t].A bb == Batch[t].b cc == Batch[t].c mm == Batch[t].m nn == Batch[t].n
                 smin == LpStatus(AA, bb, cc, mm, nn)  smax == LpStatus(AA, bb, Neg(cc), mm, nn)
             IN [smin |-> smin, smax |-> smax,
                 omin |-> IF smin = "OPTIMAL" THEN MinObj(AA, bb, cc, mm, nn) ELSE <<0, 1>>,
                 omax |-> IF smax = "OPTIMAL" THEN MinObj(AA, bb, Neg(cc), mm, nn) ELSE <<0, 1>>]
Init == tid \in 1..Len(Batch) /\ l = 1 /\ ok = TRUE /\ why = "" /\ orc = Oracle(tid)
Abs(x) == IF x < 0 THEN -x ELSE x
SumSeq(f(_), k) == LET RECURSIVE G(_)
                       G(i) == IF i > k THEN 0 ELSE f(i) + G(i + 1)
                   IN G(1)
RowSlack(i) == SumSeq(LAMBDA j : Abs(A[i][j]), n) + 1
\* feasibility of x4 with an extra tolerance `tol4` (units of 10^-4)
PointBad(x, tol4) ==
  IF Len(x) # n THEN "Point.wrong_dimension"
  ELSE IF \E j \in 1..n : x[j] < -(1 + tol4) THEN "Point.negative_coordinate"
  ELSE IF \E i \in 1..m : SumSeq(LAMBDA j : A[i][j] * x[j], n) > b[i] * 10000 + RowSlack(i) + tol4 * RowSlack(i) THEN "Point.violates_constraint"
  ELSE ""
Check(e) ==
  IF e.e = "raise" THEN "Raise." \o e.what
  ELSE IF e.e = "noreturn" THEN "NoReturn"
  ELSE
  LET c == IF e.minimize THEN T.c ELSE Neg(T.c)
      st == IF e.minimize THEN orc.smin ELSE orc.smax
      o0 == IF e.minimize THEN orc.omin ELSE <<-orc.omax[1], orc.omax[2]>>       \* optimum of the integer data in the user's sign
      o == <<o0[1], o0[2] * T.cden>>
      \* rational data: the call was made with rows divided by powers of two (same feasible set) and the objective vector divided
      \* by cd = T.cden; the oracle works on the integer data, so the user's objective is (c.x) / cd
      cd == T.cden
      cx4 == SumSeq(LAMBDA j : T.c[j] * e.x4[j], n)
      cslack == SumSeq(LAMBDA j : Abs(T.c[j]), n) + cd
  IN IF e.solver = "simplex" THEN
       IF e.status = "MAX_ITER" THEN ""
       ELSE IF e.status \notin {"OPTIMAL", "INFEASIBLE", "UNBOUNDED"} THEN "Return.unexpected_status"
       ELSE IF e.status # st THEN "Verdict." \o e.status \o "_but_problem_is_" \o st
       ELSE IF e.status # "OPTIMAL" THEN ""
       ELSE IF ~e.finite THEN "Point.not_finite"
       ELSE IF e.huge THEN "Point.too_large_for_a_basic_solution"       \* vertices of these LPs have coordinates below 2000
       ELSE IF PointBad(e.x4, 0) # "" THEN PointBad(e.x4, 0)
       ELSE IF Abs(e.obj4 * cd - cx4) > cslack THEN "Objective.is_not_c_dot_x"
       ELSE IF Abs(e.obj6 - Dec6(o[1], o[2])) > 2 THEN "Objective.is_not_the_optimum"
       ELSE ""
     ELSE \* interior point: claims only for OPTIMAL / FEASIBLE answers
       IF e.status = "OPTIMAL" THEN
            (IF ~e.finite THEN "Point.not_finite"
             ELSE IF e.huge THEN (IF st # "OPTIMAL" THEN "Verdict.OPTIMAL_but_problem_is_" \o st ELSE "Objective.is_not_the_optimum")
             ELSE IF st # "OPTIMAL" THEN "Verdict.OPTIMAL_but_problem_is_" \o st
             ELSE IF PointBad(e.x4, 1) # "" THEN PointBad(e.x4, 1)
             ELSE IF Abs(e.obj4 * cd - cx4) > cslack + cd THEN "Objective.is_not_c_dot_x"
             ELSE IF Abs(e.obj6 - Dec6(o[1], o[2])) > 102 THEN "Objective.is_not_the_optimum"
             ELSE "")
       ELSE IF e.status = "FEASIBLE" THEN
            (IF ~e.finite THEN "Point.not_finite"
             ELSE IF e.huge THEN ""          \* a far-away point on an unbounded ray: finite, but outside the 32-bit projection - not checked
             ELSE PointBad(e.x4, 100))
       ELSE IF e.status \in {"MAX_ITER", "INFEASIBLE", "UNBOUNDED"} THEN ""
       ELSE "Return.unexpected_status"
Step == /\ ok /\ l <= Len(T.events) /\ l' = l + 1 /\ UNCHANGED <<tid, orc>>
        /\ LET w == Check(T.events[l]) IN IF w = "" THEN UNCHANGED <<ok, why>> ELSE ok' = FALSE /\ why' = T.events[l].solver \o ":" \o w
Spec == Init /\ [][Step]_vars
Report == (l = Len(T.events) + 1 \/ ~ok) => PrintT(ToJson([tid |-> tid, ok |-> ok, why |-> why, l |-> l, smin |-> orc.smin, smax |-> orc.smax, div |-> {}]))
========================================================================
