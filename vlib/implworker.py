"""Worker process: reads one JSON task per line, runs drivers.<driver>.<fn>(case), prints one JSON reply per line.

Runs with PYTHONPATH=/repo:/verif so `import solvor` is /repo's current working tree.
An exception escaping the driver function is reported as {"__raise__": ...} (drivers normally catch exceptions
of the implementation themselves and turn them into a Raise event).
"""
import importlib
import json
import os
import sys
import traceback


def main():
    out = os.fdopen(os.dup(1), "w")
    # anything the implementation prints must not corrupt the protocol
    devnull = open(os.devnull, "w")
    os.dup2(devnull.fileno(), 1)
    sys.stdout = devnull
    mods = {}
    for line in sys.stdin:
        line = line.strip()
        if not line:
            continue
        task = json.loads(line)
        try:
            m = mods.get(task["driver"])
            if m is None:
                m = mods[task["driver"]] = importlib.import_module("drivers." + task["driver"])
            res = getattr(m, task["fn"])(task["case"])
        except BaseException as ex:  # noqa: BLE001
            res = {"__raise__": type(ex).__name__ + ": " + str(ex)[:300], "tb": traceback.format_exc()[-1500:]}
        out.write(json.dumps(res) + "\n")
        out.flush()


if __name__ == "__main__":
    main()
