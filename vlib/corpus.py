"""Turns the calls recorded by vlib.pytest_capture into driver cases (only calls whose inputs lie in a property's domain)."""
import json
import os
import subprocess

from .tlc import scratch

REPO = os.environ.get("VERIF_REPO") or "/repo"
VERIF = os.path.dirname(os.path.dirname(os.path.abspath(__file__)))
PY = os.environ.get("VERIF_PY", "/venv/bin/python")


def capture(test_files, timeout=900):
    """run the given repository test files with the capture plugin; returns the list of recorded calls"""
    wd = scratch("cap-")
    out = os.path.join(wd, "calls.jsonl")
    env = dict(os.environ, PYTHONPATH=REPO + os.pathsep + VERIF, VERIF_CAPTURE_FILE=out, PYTHONDONTWRITEBYTECODE="1")
    env.pop("SOLVOR_VERIF", None)
    cmd = [PY, "-m", "pytest", "-q", "-p", "no:cacheprovider", "--no-cov", "-p", "vlib.pytest_capture", "-x", "--timeout=300"] + \
          [os.path.join(REPO, f) for f in test_files]
    subprocess.run(cmd, cwd=REPO, env=env, capture_output=True, text=True, timeout=timeout)
    calls = []
    if os.path.exists(out):
        for line in open(out):
            try:
                calls.append(json.loads(line))
            except Exception:  # noqa: BLE001
                pass
    import shutil
    shutil.rmtree(wd, ignore_errors=True)
    return calls


def _ints(xs):
    return all(isinstance(v, int) and not isinstance(v, bool) for v in xs)


def sat_cases(calls, limit=400):
    out, seen = [], set()
    for c in calls:
        if c["fn"] != "solve_sat" or not c["args"]:
            continue
        cl = c["args"][0]
        if not isinstance(cl, list) or not all(isinstance(x, list) and _ints(x) and all(v != 0 for v in x) for x in cl):
            continue
        nv = max([abs(v) for x in cl for v in x] + [0])
        if nv > 40 or len(cl) > 220 or len(cl) == 0:
            continue
        kw = c["kwargs"]
        case = {"clauses": cl, "assumptions": [a for a in (kw.get("assumptions") or []) if isinstance(a, int) and a != 0],
                "limit": int(kw.get("solution_limit", 1)), "max_conflicts": int(kw.get("max_conflicts", 100000)),
                "max_restarts": int(kw.get("max_restarts", 10000)), "luby_factor": int(kw.get("luby_factor", 100))}
        if case["limit"] < 1 or case["limit"] > 50:
            continue
        key = json.dumps(case, sort_keys=True)
        if key not in seen:
            seen.add(key)
            out.append(case)
    return out[:limit]


def dlx_cases(calls, calls_cfg, limit=300):
    out, seen = [], set()
    for c in calls:
        if c["fn"] != "solve_exact_cover" or not c["args"]:
            continue
        M = c["args"][0]
        if not isinstance(M, list) or not M or not all(isinstance(r, list) and r and all(v in (0, 1) for v in r) for r in M):
            continue
        if len({len(r) for r in M}) != 1 or len(M) > 10 or len(M[0]) > 9:
            continue
        kw = c["kwargs"]
        ncols = len(M[0])
        names = kw.get("columns") or list(range(ncols))
        sec = kw.get("secondary") or []
        try:
            prim = [names[i] not in sec for i in range(ncols)]
        except Exception:  # noqa: BLE001
            continue
        case = {"matrix": M, "prim": prim, "calls": calls_cfg}
        key = json.dumps(case, sort_keys=True)
        if key not in seen:
            seen.add(key)
            out.append(case)
    return out[:limit]


def hungarian_cases(calls, limit=300):
    out, seen = [], set()
    for c in calls:
        if c["fn"] != "solve_hungarian" or not c["args"]:
            continue
        M = c["args"][0]
        if not isinstance(M, list) or not M or not all(isinstance(r, list) and r for r in M) or len({len(r) for r in M}) != 1:
            continue
        if len(M) > 7 or len(M[0]) > 7:
            continue
        flat = [v for r in M for v in r]
        if not all(isinstance(v, (int, float)) and abs(v) < 10 ** 5 and abs(v * 4 - round(v * 4)) < 1e-9 for v in flat):
            continue
        case = {"matrix": [[int(round(v * 4)) for v in r] for r in M], "scale": 4}
        key = json.dumps(case, sort_keys=True)
        if key not in seen:
            seen.add(key)
            out.append(case)
    return out[:limit]
