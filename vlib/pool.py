"""Worker pool that runs implementation calls in subprocesses against /repo's *current working tree*.

Each worker is `python -m vlib.implworker` with PYTHONPATH=<repo>:<verif>, SOLVOR_VERIF=1 and
PYTHONDONTWRITEBYTECODE=1.  A task is (driver module, function name, case); the reply is whatever JSON the
function returned.  A call that does not answer within its budget is killed (hang isolation, DESIGN §4.4) and
reported as {"__noreturn__": True}; a worker crash is {"__crash__": text}.
"""
from __future__ import annotations

import json
import os
import queue
import select
import subprocess
import sys
import threading
import time

VERIF = os.path.dirname(os.path.dirname(os.path.abspath(__file__)))
REPO = os.environ.get("VERIF_REPO") or "/repo"
PY = os.environ.get("VERIF_PY", "/venv/bin/python")


def worker_env(extra=None, hooks=True, pythonpath_first=None):
    e = dict(os.environ)
    pp = [REPO, VERIF]
    if pythonpath_first:
        pp = [pythonpath_first] + pp
    e["PYTHONPATH"] = os.pathsep.join(pp)
    e["PYTHONDONTWRITEBYTECODE"] = "1"
    e["PYTHONHASHSEED"] = "0"
    if hooks:
        e["SOLVOR_VERIF"] = "1"
    else:
        e.pop("SOLVOR_VERIF", None)
    if extra:
        e.update(extra)
    return e


class _Worker:
    def __init__(self, env):
        self.env = env
        self.p = None
        self.start()

    def start(self):
        self.p = subprocess.Popen([PY, "-u", "-m", "vlib.implworker"], stdin=subprocess.PIPE,
                                  stdout=subprocess.PIPE, stderr=subprocess.DEVNULL, env=self.env, cwd=VERIF)
        self.buf = b""

    def kill(self):
        try:
            self.p.kill()
            self.p.wait(timeout=5)
        except Exception:  # noqa: BLE001
            pass

    def call(self, task, timeout):
        if self.p.poll() is not None:
            self.start()
        try:
            self.p.stdin.write((json.dumps(task) + "\n").encode())
            self.p.stdin.flush()
        except (BrokenPipeError, OSError):
            self.kill()
            self.start()
            return {"__crash__": "broken pipe"}
        deadline = time.time() + timeout
        fd = self.p.stdout.fileno()
        while True:
            if b"\n" in self.buf:
                line, self.buf = self.buf.split(b"\n", 1)
                try:
                    return json.loads(line)
                except Exception as ex:  # noqa: BLE001
                    return {"__crash__": f"bad reply: {ex}: {line[:200]!r}"}
            left = deadline - time.time()
            if left <= 0:
                self.kill()
                self.start()
                return {"__noreturn__": True}
            r, _, _ = select.select([fd], [], [], min(left, 1.0))
            if r:
                chunk = os.read(fd, 1 << 16)
                if not chunk:
                    rc = self.p.poll()
                    self.kill()
                    self.start()
                    return {"__crash__": f"worker exited rc={rc}"}
                self.buf += chunk


def run_tasks(driver, fn, cases, timeout=120.0, procs=14, env=None, hooks=True, retry_noreturn=True,
              pythonpath_first=None):
    """Run fn(case) of module `driver` for each case in worker subprocesses; results in input order."""
    e = worker_env(env, hooks=hooks, pythonpath_first=pythonpath_first)
    n = len(cases)
    results = [None] * n
    q = queue.Queue()
    for i in range(n):
        q.put(i)
    procs = max(1, min(procs, n))

    def loop():
        w = _Worker(e)
        try:
            while True:
                try:
                    i = q.get_nowait()
                except queue.Empty:
                    return
                task = {"driver": driver, "fn": fn, "case": cases[i]}
                r = w.call(task, timeout)
                if isinstance(r, dict) and r.get("__noreturn__") and retry_noreturn:
                    r = w.call(task, timeout)  # retried once before being believed (DESIGN §4.1 T)
                results[i] = r
        finally:
            w.kill()

    ths = [threading.Thread(target=loop, daemon=True) for _ in range(procs)]
    for t in ths:
        t.start()
    for t in ths:
        t.join()
    return results


if __name__ == "__main__":
    print(run_tasks(sys.argv[1], sys.argv[2], [json.loads(a) for a in sys.argv[3:]]))
