"""Rebuild the Rust extension from /repo/rust (current working tree) and expose it through an overlay package.

The cargo target directory is a cache outside /repo and /verif (rebuilt from scratch when missing); the overlay is a
scratch directory holding symlinks to /repo/solvor/* plus the freshly built _solvor_rust shared object, so that
`import solvor` in a worker with the overlay first on PYTHONPATH uses the working tree's Python *and* Rust code.
"""
import glob
import os
import shutil
import subprocess
import sysconfig

from .tlc import MachineryError, scratch

REPO = os.environ.get("VERIF_REPO") or "/repo"
# one cargo cache per source tree (checks of different trees may run side by side) - cargo itself serialises builds that
# share a target directory with a file lock, so two checks of the same tree are safe as well
TARGET = os.environ.get("VERIF_RUST_TARGET") or (
    "/tmp/solvor-verif-rust-target" if REPO == "/repo" else "/tmp/solvor-verif-rust-target-" + __import__("hashlib").sha1(REPO.encode()).hexdigest()[:10])
PY = os.environ.get("VERIF_PY", "/venv/bin/python")


def build_overlay():
    env = dict(os.environ, PYO3_PYTHON=PY, CARGO_NET_OFFLINE="true")
    env["PATH"] = os.path.expanduser("~/.cargo/bin") + os.pathsep + env.get("PATH", "")
    cmd = ["cargo", "build", "--release", "--offline", "--manifest-path", os.path.join(REPO, "rust", "Cargo.toml"),
           "--target-dir", TARGET]
    p = subprocess.run(cmd, env=env, capture_output=True, text=True, timeout=1800)
    so = os.path.join(TARGET, "release", "lib_solvor_rust.so")
    if p.returncode != 0 or not os.path.exists(so):
        raise MachineryError("cargo build failed (the check never falls back to a stale binary):\n" + (p.stderr or p.stdout)[-3000:])
    ov = scratch("overlay-")
    pkg = os.path.join(ov, "solvor")
    os.makedirs(pkg)
    for f in os.listdir(os.path.join(REPO, "solvor")):
        if f.startswith("_solvor_rust") or f == "__pycache__":
            continue
        os.symlink(os.path.join(REPO, "solvor", f), os.path.join(pkg, f))
    suffix = subprocess.run([PY, "-c", "import sysconfig;print(sysconfig.get_config_var('EXT_SUFFIX'))"], capture_output=True, text=True).stdout.strip()
    # copy under cargo's build lock would be ideal; re-run the (now no-op) build right before copying keeps the window small
    shutil.copy(so, os.path.join(pkg, "_solvor_rust" + suffix))
    return ov


def cleanup(ov):
    shutil.rmtree(ov, ignore_errors=True)
