"""Common check flow: MC runs, trace validation, classification, known findings, evidence, exit code."""
from __future__ import annotations

import hashlib
import json
import os
import sys
import time

from . import tlc
from .tlc import MachineryError

VERIF = os.path.dirname(os.path.dirname(os.path.abspath(__file__)))
FINDINGS = os.path.join(VERIF, "known_findings.json")


def canon(obj):
    return hashlib.sha1(json.dumps(obj, sort_keys=True, default=str).encode()).hexdigest()[:12]


def load_findings(pid):
    if not os.path.exists(FINDINGS):
        return []
    with open(FINDINGS) as fh:
        data = json.load(fh)
    return [f for f in data.get("findings", []) if pid in f.get("properties", [f.get("property")])]


CURRENT = None      # the Check of this process (main_wrap reports its violations even if a later machinery step fails)


class Check:
    def __init__(self, pid, tier, seed, level="model_checking"):
        global CURRENT
        CURRENT = self
        self.pid = pid
        self.tier = tier
        self.seed = seed
        self.level = level
        self.t0 = time.time()
        self.states = 0
        self.transitions = 0
        self.mc_runs = []
        self.tv_runs = []
        self.traces = 0
        self.evaluations = 0
        self.nontrivial = set()
        self.samples = []
        self.violations = []       # (why, replay path)
        self.known_hits = {}       # finding id -> count
        self.divergences = {}      # name -> count
        self.actions = {}          # action/event name -> count
        self.controls = []         # negative controls that fired
        self.notes = []
        self.extra = {}
        self.assumptions = []
        self.findings = [f for f in load_findings(pid) if f.get("status") == "open"]
        self.exhaustive = False
        self.rule = ""

    # ---- design level -------------------------------------------------------------------------------
    def mc(self, spec_dir, module, cfg, expect_violation=None, **kw):
        r = tlc.model_check(os.path.join(tlc.SPECS, spec_dir), module, cfg, expect_violation=expect_violation, **kw)
        if not r["ok"]:
            raise MachineryError(f"design spec {module}/{cfg} does not model-check:\n{r['out'][-4000:]}")
        rec = {"module": module, "cfg": cfg, "generated": r["states"], "distinct": r["distinct"],
               "depth": r["depth"], "wall_s": round(r["wall"], 2)}
        if expect_violation:
            rec["negative_control_for"] = expect_violation
            self.controls.append(f"{module}/{cfg}: TLC finds the expected counterexample to {expect_violation}")
        else:
            self.states += r["distinct"]
            self.transitions += r["states"]
        self.mc_runs.append(rec)
        return r

    # ---- conformance --------------------------------------------------------------------------------
    def validate(self, spec_dir, module, traces, label="", **kw):
        vs, st = tlc.validate_batch(os.path.join(tlc.SPECS, spec_dir), module, traces, **kw)
        self.states += st["distinct"]
        self.transitions += st["states"]
        self.tv_runs.append({"module": module, "label": label, "traces": len(traces), "generated": st["states"],
                             "distinct": st["distinct"], "tlc_processes": st["tlc_runs"],
                             "wall_s": round(st["wall"], 2)})
        return vs

    def classify(self, traces, verdicts, nontrivial=None, count=True):
        """Turn verdicts into violations / known findings / divergences.  Each trace dict may carry 'id'."""
        for tr, v in zip(traces, verdicts):
            if count:
                self.traces += 1
                self.evaluations += 1
                if nontrivial is None or nontrivial(tr, v):
                    self.nontrivial.add(canon(tr.get("input", tr)))
            for d in v.get("div", []) or []:
                self.divergences[d] = self.divergences.get(d, 0) + 1
            for a in v.get("acts", []) or []:
                self.actions[a] = self.actions.get(a, 0) + 1
            if v["ok"]:
                continue
            self.report_failure(tr, v)

    def match_finding(self, v):
        why = v.get("why", "")
        divs = v.get("div") or []
        wits = v.get("wit") or []
        for f in self.findings:
            if f["clause"] != why and not (f["clause"].endswith("*") and why.startswith(f["clause"][:-1])) \
                    and why not in f.get("clauses", []):
                continue
            if f.get("divergence") and (not divs or f["divergence"] not in divs):
                continue
            if f.get("witness") and f["witness"] not in wits:
                continue
            if f.get("witness_only"):
                shapes = [w for w in wits if not w.startswith("solver:")]
                if not shapes or not set(shapes) <= set(f["witness_only"]):
                    continue
            if f.get("solver") and ("solver:" + f["solver"]) not in wits:
                continue
            return f
        return None

    def report_failure(self, tr, v):
        f = self.match_finding(v)
        if f is not None:
            self.known_hits[f["id"]] = self.known_hits.get(f["id"], 0) + 1
            self.extra.setdefault("known_finding_examples", {}).setdefault(f["id"], tr.get("input", None))
            return
        path = os.path.join(VERIF, "replays", f"{self.pid}-{canon(tr)}.json")
        os.makedirs(os.path.dirname(path), exist_ok=True)
        with open(path, "w") as fh:
            json.dump({"property": self.pid, "verdict": v, "trace": tr}, fh, indent=1, default=str)
        self.violations.append((v.get("why", "?"), path))

    def control(self, name, fired, detail=""):
        """Binding demonstration: a corrupted trace must be rejected; otherwise the machinery is broken."""
        if not fired:
            raise MachineryError(f"negative control '{name}' did not fire: {detail}")
        self.controls.append(name)

    def sample(self, s):
        if len(self.samples) < 4:
            self.samples.append(s)

    # ---- finish -------------------------------------------------------------------------------------
    def finish(self):
        wall = time.time() - self.t0
        cov = {
            "states": self.states,
            "transitions": self.transitions,
            "traces_validated_against_impl": self.traces,
            "samples": self.samples or [{"note": "no sample recorded"}],
            "evaluations": max(self.evaluations, 0),
            "distinct_nontrivial": len(self.nontrivial),
            "rule": self.rule,
            "exhaustive": self.exhaustive,
            "model_checking_runs": self.mc_runs,
            "trace_validation_runs": self.tv_runs,
            "events_by_kind": self.actions,
            "diagnostic_divergences": self.divergences,
            "negative_controls_fired": self.controls,
            "known_findings_matched": self.known_hits,
            "notes": self.notes,
        }
        cov.update(self.extra)
        ev = {
            "property_id": self.pid,
            "tier": self.tier,
            "seed": self.seed,
            "level": self.level,
            "coverage": cov,
            "assumptions": self.assumptions,
            "wall_s": round(wall, 2),
            "violations": len(self.violations),
        }
        os.makedirs(os.path.join(VERIF, "evidence"), exist_ok=True)
        with open(os.path.join(VERIF, "evidence", self.pid + ".json"), "w") as fh:
            json.dump(ev, fh, indent=1, default=str)
        for d, n in sorted(self.divergences.items()):
            print(f"DIVERGENCE property={self.pid} guard={d} count={n}")
        for f in self.findings:
            if self.known_hits.get(f["id"]):
                print(f"KNOWN-FINDING: property={self.pid} {f['what']} (matched {self.known_hits[f['id']]} traces; id={f['id']})")
        per = {}
        for why, path in self.violations:
            per[why] = per.get(why, 0) + 1
            if per[why] <= 3:
                print(f"VIOLATION property={self.pid} replay={path} clause={why}")
        for why, n in per.items():
            if n > 3:
                print(f"  ... {n - 3} more violations with clause={why} (replay files written)")
        print(f"{self.pid} {self.tier}: traces={self.traces} states={self.states} transitions={self.transitions} "
              f"violations={len(self.violations)} known={sum(self.known_hits.values())} wall={wall:.1f}s")
        return 1 if self.violations else 0


def main_wrap(fn):
    try:
        rc = fn()
    except MachineryError as ex:
        if CURRENT is not None and CURRENT.violations:
            # violations were already established on recorded executions; a later machinery step (typically: no accepted trace
            # left to build the negative controls from) must not turn them into "machinery failure"
            CURRENT.notes.append("machinery step failed after violations had been found: " + str(ex)[:300])
            print("NOTE: " + str(ex).splitlines()[0][:200] + " (reported after the violations below)", file=sys.stderr)
            rc = CURRENT.finish()
        else:
            print("MACHINERY-FAILURE:", ex, file=sys.stderr)
            rc = 2
    sys.exit(rc)
