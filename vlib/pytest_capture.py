"""pytest plugin (loaded with `-p vlib.pytest_capture`, PYTHONPATH must contain /verif): records the arguments of selected
public solvOR functions while the REPOSITORY'S OWN test suite runs, one JSON object per call, into $VERIF_CAPTURE_FILE.

The recorded inputs are then replayed through the drivers and validated against the TLA+ trace specs - the repository's
tests exercise behaviour their assertions do not check (DESIGN §3.2).  No repository file is modified.
"""
import functools
import json
import os

TARGETS = {
    "solvor.sat": ["solve_sat"],
    "solvor.dlx": ["solve_exact_cover"],
    "solvor.hungarian": ["solve_hungarian"],
    "solvor.mst": ["kruskal"],
    "solvor.knapsack": ["solve_knapsack"],
    "solvor.bin_pack": ["solve_bin_pack"],
    "solvor.flow": ["max_flow"],
}


def _jsonable(x):
    try:
        json.dumps(x)
        return True
    except Exception:  # noqa: BLE001
        return False


def _norm(x):
    if isinstance(x, (list, tuple)):
        return [_norm(v) for v in x]
    if isinstance(x, dict):
        return {str(k): _norm(v) for k, v in x.items()}
    return x


def pytest_configure(config):
    path = os.environ.get("VERIF_CAPTURE_FILE")
    if not path:
        return
    import importlib
    import solvor
    fh = open(path, "a")

    def wrap(modname, name, fn):
        @functools.wraps(fn)
        def w(*a, **k):
            try:
                rec = {"fn": name, "args": _norm(list(a)), "kwargs": _norm({kk: vv for kk, vv in k.items() if kk not in ("on_progress",)})}
                if _jsonable(rec):
                    fh.write(json.dumps(rec) + "\n")
                    fh.flush()
            except Exception:  # noqa: BLE001
                pass
            return fn(*a, **k)
        return w

    for modname, names in TARGETS.items():
        mod = importlib.import_module(modname)
        for name in names:
            orig = getattr(mod, name)
            w = wrap(modname, name, orig)
            setattr(mod, name, w)
            if getattr(solvor, name, None) is orig:
                setattr(solvor, name, w)
