"""TLC runner: model-checking runs and batch trace validation.

Every function returns parsed facts (states, transitions, verdict lines) and raises
MachineryError when TLC itself did not do its job (parse error, crash, missing
verdicts).  A MachineryError is never turned into a pass or into a VIOLATION.
"""
from __future__ import annotations

import json
import os
import re
import shutil
import subprocess
import tempfile
import time
from concurrent.futures import ThreadPoolExecutor

VERIF = os.path.dirname(os.path.dirname(os.path.abspath(__file__)))
SPECS = os.path.join(VERIF, "specs")
JAR = "/opt/veriftools/tla/tla2tools.jar:/opt/veriftools/tla/CommunityModules-deps.jar"


class MachineryError(Exception):
    pass


def scratch(prefix="verif-"):
    return tempfile.mkdtemp(prefix=prefix, dir=os.environ.get("VERIF_SCRATCH", "/tmp"))


_STATES = re.compile(r"(\d+) states generated, (\d+) distinct states found")
_DEPTH = re.compile(r"The depth of the complete state graph search is (\d+)")


def _stage(spec_dir, workdir):
    """Copy a spec directory (plus specs/common) into workdir so TLC writes nothing into /verif."""
    for d in (os.path.join(SPECS, "common"), spec_dir):
        for f in os.listdir(d):
            if f.endswith((".tla", ".cfg")):
                shutil.copy(os.path.join(d, f), os.path.join(workdir, f))


def run_tlc(spec_dir, module, cfg=None, env=None, workers=1, timeout=3600, extra=(), simulate=None,
            heap=None, keep=None):
    """Run TLC on <module>.tla in a staged copy of spec_dir. Returns dict(out, states, distinct, depth, rc, wall)."""
    wd = keep or scratch("tlc-")
    try:
        _stage(spec_dir, wd)
        jtmp = os.path.join(wd, "jtmp")          # TLC unpacks library modules into java.io.tmpdir and leaves them behind
        os.makedirs(jtmp, exist_ok=True)
        cmd = ["java", "-XX:+UseParallelGC", "-Xss64m", "-Djava.io.tmpdir=" + jtmp]
        if heap:
            cmd.append("-Xmx" + heap)
        cmd += ["-cp", JAR, "tlc2.TLC", "-workers", str(workers), "-metadir", os.path.join(wd, "states"),
                "-noGenerateSpecTE"]
        if cfg:
            cmd += ["-config", cfg]
        if simulate:
            cmd += ["-simulate", simulate]
        cmd += list(extra) + [module + ".tla"]
        e = dict(os.environ)
        e.pop("JAVA_TOOL_OPTIONS", None)
        if env:
            e.update(env)
        t0 = time.time()
        try:
            p = subprocess.run(cmd, cwd=wd, env=e, capture_output=True, text=True, timeout=timeout)
        except subprocess.TimeoutExpired as ex:
            raise MachineryError(f"TLC timeout after {timeout}s on {module} ({cfg})") from ex
        out = p.stdout + p.stderr
        st = _STATES.findall(out)
        dp = _DEPTH.findall(out)
        return {
            "out": out,
            "rc": p.returncode,
            "states": int(st[-1][0]) if st else 0,
            "distinct": int(st[-1][1]) if st else 0,
            "depth": int(dp[-1]) if dp else 0,
            "wall": time.time() - t0,
            "cmd": " ".join(cmd[cmd.index("tlc2.TLC"):]),
        }
    finally:
        if not keep:
            shutil.rmtree(wd, ignore_errors=True)


def model_check(spec_dir, module, cfg, workers=16, timeout=3600, expect_violation=None, env=None, heap=None,
                extra=()):
    """Exhaustive design-level run.  With expect_violation=<invariant name> the run is a negative control and
    must produce exactly that violation.  Returns the run_tlc dict plus 'ok'."""
    r = run_tlc(spec_dir, module, cfg, workers=workers, timeout=timeout, env=env, heap=heap, extra=extra)
    out = r["out"]
    if expect_violation:
        hit = (re.search(rf"\b{re.escape(expect_violation)}\b (is|was) violated", out) is not None
               or (expect_violation == "ASSUME" and "Assumption" in out and "is false" in out)
               or (expect_violation == "Deadlock" and "Deadlock reached" in out))
        if not hit:
            raise MachineryError(f"negative control {module}/{cfg}: expected violation of {expect_violation}, "
                                 f"TLC said:\n{out[-1500:]}")
        r["ok"] = True
        return r
    if r["rc"] != 0 or "Model checking completed. No error has been found" not in out:
        r["ok"] = False
        return r
    r["ok"] = True
    return r


def parse_json_lines(out):
    return _parse_verdicts(out)


def _parse_verdicts(out):
    """Verdict lines are PrintT(ToJson(rec)): a JSON string literal containing a JSON object."""
    vs = []
    for line in out.splitlines():
        line = line.strip()
        if line.startswith('"{') and line.endswith('}"'):
            try:
                vs.append(json.loads(json.loads(line)))
            except Exception:  # noqa: BLE001
                continue
    return vs


def validate_batch(spec_dir, module, traces, cfg=None, chunk=None, procs=12, timeout=1800, heap="3g",
                   env=None, max_bytes=4_000_000):
    """Validate a list of trace dicts against <module>.tla.  Returns (verdicts_by_index, stats).

    The batch is split into chunks, each checked by its own single-worker TLC process (verdict lines of a
    single worker never interleave).  Exactly one verdict per trace is required.
    """
    if not traces:
        return [], {"states": 0, "distinct": 0, "tlc_runs": 0, "wall": 0.0}
    n = len(traces)
    if chunk is None:
        chunk = max(20, min(400, (n + procs - 1) // procs))
    # chunks are bounded by count and by size: a few very large traces (long enumerations) get a TLC process of their own
    sizes = [len(json.dumps({a: b for a, b in t.items() if a != "input"}, default=str)) for t in traces]
    chunks, start, acc = [], 0, 0
    for i in range(n):
        if i > start and (i - start >= chunk or acc + sizes[i] > max_bytes):
            chunks.append((start, traces[start:i]))
            start, acc = i, 0
        acc += sizes[i]
    chunks.append((start, traces[start:n]))
    wd = scratch("tv-")
    t0 = time.time()

    def one(ix):
        k, (base, trs) = ix
        f = os.path.join(wd, f"batch{k}.json")
        with open(f, "w") as fh:
            json.dump([{a: b for a, b in t.items() if a != "input"} for t in trs], fh)
        e = {"TRACE_FILE": f}
        if env:
            e.update(env)
        r = run_tlc(spec_dir, module, cfg or module + ".cfg", env=e, workers=1, timeout=timeout, heap=heap)
        vs = _parse_verdicts(r["out"])
        if r["rc"] != 0 or "No error has been found" not in r["out"]:
            i = r["out"].find("Error")
            raise MachineryError(f"TLC failed on trace batch {k} of {module}:\n{r['out'][max(i, 0):max(i, 0) + 2500]}")
        by = {}
        for v in vs:
            if v["tid"] in by:
                raise MachineryError(f"duplicate verdict for trace {v['tid']} in batch {k} of {module}")
            by[v["tid"]] = v
        if sorted(by) != list(range(1, len(trs) + 1)):
            missing = [i for i in range(1, len(trs) + 1) if i not in by][:5]
            raise MachineryError(f"missing verdicts in batch {k} of {module}: {missing} ...\n{r['out'][-2000:]}")
        os.remove(f)
        return base, [by[i + 1] for i in range(len(trs))], r

    try:
        with ThreadPoolExecutor(max_workers=procs) as ex:
            res = list(ex.map(one, enumerate(chunks)))
    finally:
        shutil.rmtree(wd, ignore_errors=True)
    verdicts = [None] * n
    states = distinct = 0
    for base, vs, r in res:
        for i, v in enumerate(vs):
            verdicts[base + i] = v
        states += r["states"]
        distinct += r["distinct"]
    return verdicts, {"states": states, "distinct": distinct, "tlc_runs": len(chunks), "wall": time.time() - t0}
