#!/bin/sh
# Offline setup: nothing to build (specs are interpreted by TLC, drivers are plain Python).
# Sanity: TLC starts, the repo imports, every spec parses.
set -e
cd "$(dirname "$0")"
java -cp /opt/veriftools/tla/tla2tools.jar tlc2.TLC -h >/dev/null 2>&1 || true
PYTHONPATH=/repo /venv/bin/python -c "import solvor"
mkdir -p evidence replays
echo setup ok
