#!/bin/sh
# usage: tools/seedtest2.sh <seeddir> <PROP> [tier]   - like seedtest.sh but everything happens in a scratch worktree (VERIF_REPO), /repo is untouched,
# so several seeds of different properties can be tried at once
SD=$1; P=$2; TIER=${3:-quick}
WT=/tmp/seedverify-$$
git -C /repo worktree add --detach $WT HEAD -q || exit 2
cp /repo/solvor/_solvor_rust*.so $WT/solvor/ 2>/dev/null
cd $WT
PYTHONPATH=$WT /venv/bin/python $SD/demo.py >/dev/null 2>&1; echo "demo without patch: rc=$?"
git apply $SD/patch.diff || { echo "PATCH DOES NOT APPLY"; cd /; git -C /repo worktree remove --force $WT; exit 2; }
PYTHONPATH=$WT /venv/bin/python $SD/demo.py >/dev/null 2>&1; echo "demo with patch: rc=$?"
PYTHONPATH=$WT /venv/bin/python -m pytest ${SEEDTEST_TESTS:-tests} -q -p no:cacheprovider --no-cov -x -q --timeout=900 --deselect tests/test_docs.py 2>&1 | tail -1
cd /verif && VERIF_REPO=$WT ./check $P --tier $TIER 2>&1 | grep -E "^VIOLATION|^KNOWN|^$P|MACHINERY|more violations" | cut -c1-220 | head -8
cd /
git -C /repo worktree remove --force $WT
