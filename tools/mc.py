#!/venv/bin/python
"""usage: tools/mc.py <specdir> <module> cfg[=ExpectedViolation] ...   (prints a one-line result per config)"""
import sys, os, re
sys.path.insert(0, os.path.dirname(os.path.dirname(os.path.abspath(__file__))))
from vlib import tlc
d, mod = sys.argv[1], sys.argv[2]
for a in sys.argv[3:]:
    cfg, _, exp = a.partition("=")
    try:
        r = tlc.model_check(os.path.join(tlc.SPECS, d), mod, cfg, expect_violation=exp or None, timeout=3000)
        print(cfg, "OK" if r["ok"] else "FAIL", r["states"], r["distinct"], round(r["wall"], 1))
        if not r["ok"]:
            out = r["out"]
            i = out.find("Error")
            j = out.find("*** Errors")
            k = min([x for x in (i, j) if x >= 0] or [0])
            print(re.sub(r"\n\d+\. Line.*", "", out[k:k + 2500]))
    except Exception as e:
        s = str(e)
        i = s.find("Error")
        print(cfg, "EXC", re.sub(r"\n\d+\. Line.*", "", s[max(i, 0):max(i, 0) + 1500]))
