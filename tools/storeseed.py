#!/usr/bin/env python3
"""usage: tools/storeseed.py <worktree-id e.g. C09h> <name> <PROP> <needs> <caught_by> [round]  - copies patch.diff / demo.py / README.md from /tmp/seed/<id>/seed"""
import json, os, shutil, sys
wid, name, prop, needs, caught = sys.argv[1:6]
rnd = sys.argv[6] if len(sys.argv) > 6 else "7"
src = f"/tmp/seed/{wid}/seed"
dst = f"/verif/seeded/{name}"
os.makedirs(dst, exist_ok=True)
for f in ("patch.diff", "demo.py", "README.md"):
    if os.path.exists(f"{src}/{f}"):
        shutil.copy(f"{src}/{f}", f"{dst}/{f}")
json.dump({"id": name, "property": prop, "needs_to_manifest": needs,
           "verified": "tools/seedtest2.sh (SEEDTEST_TESTS=tests/solvors): patch applies to /repo HEAD in a scratch worktree; demo exits 0 without and 1 with the patch; tests/solvors passes with the patch; check run against that worktree (VERIF_REPO)",
           "caught_by": [caught],
           "origin": f"independent sub-agent (round {rnd}: given only the property text, a focus on cross-call state / argument identity and type / size thresholds / rarely used parameters, and a scratch worktree; asked to fuzz the unmodified tree adversarially first)"},
          open(f"{dst}/meta.json", "w"), indent=1)
print("stored", dst, os.listdir(dst))
