#!/bin/sh
# usage: tools/runall.sh <tier> <seed>   -- runs every check, prints one line per property
cd "$(dirname "$0")/.."
for p in C01 C02 C03 C04 C05 C06 C07 C08 C09 C10 C11 C12 C13 C14 C15 C16 C17 C18 C19 C20; do
  out=$(VERIF_SEED=$2 ./check $p --tier $1 2>&1); rc=$?
  echo "$p rc=$rc $(echo "$out" | tail -1)"
  echo "$out" | grep -E "^VIOLATION|MACHINERY" | head -5
done
