#!/bin/sh
# usage: tools/seedtest.sh <seeddir> <PROP> [tier]     e.g. tools/seedtest.sh /tmp/seed/C07/seed C07
# 1. verifies the seed in a fresh scratch worktree (tests pass with patch, demo fails with / passes without)
# 2. applies the patch to /repo, runs ./check PROP, reverts /repo
SD=$1; P=$2; TIER=${3:-quick}
WT=/tmp/seedverify-$$
git -C /repo worktree add --detach $WT HEAD -q || exit 2
cp /repo/solvor/_solvor_rust*.so $WT/solvor/ 2>/dev/null
cd $WT
PYTHONPATH=$WT /venv/bin/python $SD/demo.py >/dev/null 2>&1; echo "demo without patch: rc=$?"
git apply $SD/patch.diff || { echo "PATCH DOES NOT APPLY"; cd /; git -C /repo worktree remove --force $WT; exit 2; }
PYTHONPATH=$WT /venv/bin/python $SD/demo.py >/dev/null 2>&1; echo "demo with patch: rc=$?"
PYTHONPATH=$WT /venv/bin/python -m pytest ${SEEDTEST_TESTS:-tests} -q -p no:cacheprovider --no-cov -x -q --timeout=900 --deselect tests/test_docs.py 2>&1 | tail -1
cd /
git -C /repo worktree remove --force $WT
if [ -n "$(git -C /repo status --porcelain)" ]; then echo "/repo not clean"; exit 2; fi
git -C /repo apply $SD/patch.diff || exit 2
cd /verif && ./check $P --tier $TIER 2>&1 | grep -E "^VIOLATION|^KNOWN|^$P|MACHINERY" | head -8
git -C /repo checkout -- .
echo "reverted: $(git -C /repo status --porcelain | wc -l) dirty files"
