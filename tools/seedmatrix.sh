#!/bin/sh
# usage: tools/seedmatrix.sh [tier]   -- applies every stored seeded change in turn to a scratch worktree of /repo HEAD
# (so /repo itself stays free), runs its property's check against that tree, reverts, and prints one line per change:
# CAUGHT (n violations) / MISSED / DOES-NOT-APPLY.
TIER=${1:-quick}
cd "$(dirname "$0")/.."
WT=/tmp/seedmatrix-wt
git -C /repo worktree remove --force $WT 2>/dev/null
git -C /repo worktree add --detach $WT HEAD -q || exit 2
cp /repo/solvor/_solvor_rust*.so $WT/solvor/ 2>/dev/null
for d in seeded/*/; do
  id=$(basename $d)
  P=$(/venv/bin/python -c "import json,sys;print(json.load(open('$d/meta.json'))['property'])")
  if ! git -C $WT apply --check $PWD/$d/patch.diff 2>/dev/null; then echo "$id $P DOES-NOT-APPLY"; continue; fi
  git -C $WT apply $PWD/$d/patch.diff
  out=$(VERIF_REPO=$WT ./check $P --tier $TIER 2>&1); rc=$?
  git -C $WT checkout -- . ; git -C $WT clean -fdq -- solvor/*.py rust/src 2>/dev/null
  n=$(echo "$out" | grep -c "^VIOLATION")
  cl=$(echo "$out" | grep "^VIOLATION" | sed 's/.*clause=//' | sort | uniq -c | sort -rn | head -2 | awk '{print $2"("$1")"}' | tr '\n' ' ')
  dv=$(echo "$out" | grep "^DIVERGENCE" | sed 's/.*guard=\([^ ]*\).*/\1/' | head -2 | tr '\n' ' ')
  tot=$(echo "$out" | tail -1 | sed 's/.*violations=\([0-9]*\).*/\1/')
  if [ "$rc" = "1" ]; then echo "$id $P CAUGHT violations=$tot $cl ${dv:+| step: $dv}"; elif [ "$rc" = "0" ]; then echo "$id $P MISSED ${dv:+| step: $dv}"; else echo "$id $P MACHINERY rc=$rc $(echo "$out" | tail -2 | head -1 | cut -c1-150)"; fi
done
git -C /repo worktree remove --force $WT 2>/dev/null
