"""C07 — exact cover (DESIGN §5 C07)."""
import copy
import json
import os
import random
import shutil

from vlib import tlc
from vlib.pool import run_tasks
from vlib.runner import Check
from drivers import dlx as drv

PID, DIR = "C07", "Dlx"


def _fix(res, cases):
    out = []
    for r, c in zip(res, cases):
        if not isinstance(r, dict) or "events" not in r:
            what = "noreturn" if isinstance(r, dict) and r.get("__noreturn__") else "raise"
            r = {"matrix": c["matrix"], "prim": c["prim"], "input": c, "events": [{"e": what, "what": "WorkerCrash"}]}
        out.append(r)
    return out


def run(tier, seed, replay=None):
    ck = Check(PID, tier, seed)
    rng = random.Random(seed * 7919 + 7)
    if replay:
        rp = json.load(open(replay))
        case = rp["trace"]["input"]
        trs = _fix(run_tasks("dlx", "run_dlx", [case], timeout=120), [case])
        ck.classify(trs, ck.validate(DIR, "DlxTrace", trs, "replay"))
        return ck.finish()
    ck.mc(DIR, "AlgX", "MC_AlgX_2x3.cfg")
    ck.mc(DIR, "AlgX", "MC_AlgX_3x3.cfg")
    if tier == "thorough":
        ck.mc(DIR, "AlgX", "MC_AlgX_4x3.cfg", timeout=14400)
        ck.mc(DIR, "AlgX", "MC_AlgX_3x4.cfg", timeout=14400)
    ck.mc(DIR, "AlgX", "NC_AlgX_skip.cfg", expect_violation="Complete")
    # link level: build / cover / uncover on the four-way linked node structure refine the matrix-level operations
    ck.mc(DIR, "DlxLinks", "MC_links23.cfg")
    if tier == "thorough":
        ck.mc(DIR, "DlxLinks", "MC_links33.cfg", timeout=14400)
    ck.mc(DIR, "DlxLinks", "NC_links.cfg", expect_violation="Refines")
    # spec -> code: all matrices of the scope, exported by TLC with the expected number of covers
    cases = []
    for cfg in (["Export_2x2.cfg", "Export_3x2.cfg", "Export_2x3.cfg"] + (["Export_3x3.cfg"] if tier == "thorough" else [])):
        wd = tlc.scratch("exp-")
        f = os.path.join(wd, "m.ndjson")
        r = tlc.run_tlc(os.path.join(tlc.SPECS, DIR), "DlxExport", cfg, env={"EXPORT_FILE": f})
        if "No error has been found" not in r["out"] or not os.path.exists(f):
            raise tlc.MachineryError("matrix export failed:\n" + r["out"][-1500:])
        for line in open(f):
            d = json.loads(line)
            cases.append({"matrix": d["matrix"], "prim": d["prim"], "calls": drv.CALLS, "expect_ncovers": d["ncovers"]})
        shutil.rmtree(wd, ignore_errors=True)
    nexp = len(cases)
    ck.extra["tlc_exported_matrices"] = nexp
    cases += drv.gen_random(rng, 1200 if tier == "quick" else 12000)
    cases += drv.DEGENERATE
    from vlib import corpus
    rc = corpus.dlx_cases(corpus.capture(["tests/solvors/test_dlx.py", "tests/examples/test_puzzles.py"] if tier == "thorough" else ["tests/solvors/test_dlx.py"]), drv.CALLS)
    ck.extra["inputs_recorded_from_repository_tests"] = len(rc)
    cases += rc
    trs = _fix(run_tasks("dlx", "run_dlx", cases, timeout=120), cases)
    vs = ck.validate(DIR, "DlxTrace", trs, "solve_exact_cover under 7 call configurations per input")
    # the exported expectation and the trace spec's own enumeration must agree (machinery self-check)
    for c, v in zip(cases[:nexp], vs[:nexp]):
        if v["ok"] and v["ncovers"] != c["expect_ncovers"]:
            raise tlc.MachineryError("exported cover count differs from trace spec's")
    ck.classify(trs, vs, nontrivial=lambda t, v: v.get("ncovers", 0) > 0 or any(any(r) for r in t["matrix"]))
    for t in trs:
        for e in t["events"]:
            k = e["e"] + (":" + e["status"] if e["e"] == "ret" else "")
            ck.actions[k] = ck.actions.get(k, 0) + 1
    ck.extra["inputs_with_covers"] = sum(1 for v in vs if v.get("ncovers", 0) > 0)
    ck.extra["inputs_with_many_covers"] = sum(1 for v in vs if v.get("ncovers", 0) > 2)
    ck.sample({k: v for k, v in trs[nexp // 2].items() if k != "input"})
    ck.sample({k: v for k, v in trs[-1].items() if k != "input"})
    # negative controls
    ctl = []
    for t, v in zip(trs, vs):
        if v["ok"] and v.get("ncovers", 0) >= 2 and t["events"][0]["e"] == "ret" and len(t["events"][0]["sols"]) >= 2:
            c = copy.deepcopy(t); c["events"][0]["sols"].pop(); ctl.append((c, "FindAll.cover_missing"))
            c = copy.deepcopy(t); c["events"][0]["sols"].append(list(c["events"][0]["sols"][0])); ctl.append((c, "FindAll.duplicate_selection"))
            c = copy.deepcopy(t); c["events"][0]["matrix_after"][0][0] ^= 1; ctl.append((c, "Input.matrix_modified"))
            c = copy.deepcopy(t); c["events"][2]["sols"].reverse(); ctl.append((c, "Repeat.same_call_different_answer"))
            break
    if not ctl:
        raise tlc.MachineryError("no input with >= 2 covers to build negative controls from")
    cv = ck.validate(DIR, "DlxTrace", [c for c, _ in ctl], "negative controls")
    for (c, exp), v in zip(ctl, cv):
        ck.control(f"corrupted trace rejected as {exp}", (not v["ok"]) and v["why"] == exp, str(v))
    # ---- step level: every _build_links / _cover / _uncover of a call, the real link structure walked after each one, replayed
    # against the matrix-level state DlxLinks proves it refines (diagnostic divergences)
    sc = drv.gen_steps(rng, 500 if tier == "quick" else 6000)
    st = [r for r in run_tasks("dlx", "run_dlx_steps", sc, timeout=120) if isinstance(r, dict) and "steps" in r]
    if len(st) < len(sc) // 2:
        raise tlc.MachineryError("dancing-links step traces could not be recorded (%d of %d)" % (len(st), len(sc)))
    bulk = [{"seed": rng.randint(0, 10 ** 9), "count": 1500 if tier == "quick" else 20000, "cap": 40 if tier == "quick" else 300} for _ in range(14)]
    bcov = {}
    for r in run_tasks("dlx", "run_dlx_steps_bulk", bulk, timeout=1500):
        if not isinstance(r, dict) or "kept" not in r:
            raise tlc.MachineryError("dancing-links bulk worker failed: " + str(r)[:300])
        st += r["kept"]
        for k, v in r["cov"].items():
            bcov[k] = bcov.get(k, 0) + v
    ck.extra["link_level_coverage_directed_generation"] = bcov
    sv = ck.validate(DIR, "DlxSteps", st, "cover / uncover histories (wrapped module functions, structure walked)", timeout=14400)
    for v in sv:
        for d in v.get("div", []):
            ck.divergences["links:" + d] = ck.divergences.get("links:" + d, 0) + 1
    ck.extra["link_level"] = {"calls": len(st), "operations_replayed": sum(v.get("ops", 0) for v in sv),
                              "calls_with_divergence": sum(1 for v in sv if v.get("div"))}
    ctl2 = []
    for t, v in zip(st, sv):
        ks = [i for i, x in enumerate(t["steps"]) if x["op"] == "uncover" and any(len(d) >= 2 for d in x["down"])]
        if v.get("div") or not ks:
            continue
        k = ks[0]
        j = next(i for i, d in enumerate(t["steps"][k]["down"]) if len(d) >= 2)
        c = copy.deepcopy(t); c["steps"][k]["down"][j] = c["steps"][k]["down"][j][1:]; ctl2.append((c, "Uncover.column_ring"))
        c = copy.deepcopy(t); c["steps"][k]["sizes"][j] += 1; ctl2.append((c, "Size."))
        c = copy.deepcopy(t); c["steps"][k]["up"][j] = list(c["steps"][k]["down"][j]); ctl2.append((c, "Rings.up_walk"))
        c = copy.deepcopy(t); del c["steps"][k]; ctl2.append((c, "Uncover.not_the_most_recent_cover|Finish.|Cover."))
        break
    if not ctl2:
        raise tlc.MachineryError("no step trace suitable for link-level negative controls")
    for (c, exp), v in zip(ctl2, ck.validate(DIR, "DlxSteps", [c for c, _ in ctl2], "link-level negative controls")):
        ck.control(f"corrupted link-level record flagged ({exp})", any(d.startswith(tuple(exp.split("|"))) for d in v.get("div", [])), str(v)[:300])
    ck.rule = ("all 0/1 matrices 2x2, 3x2, 2x3 (and 3x3 in thorough) x every primary/secondary split exported by TLC; random "
               "matrices up to 8x7 with duplicate/empty rows, planted covers, mixed hashable column names; each under 7 call "
               "configurations; non-trivial = matrix with at least one 1; distinct by hash of the input")
    ck.exhaustive = True
    ck.assumptions = ["column names are hashable and pairwise distinct"]
    return ck.finish()
