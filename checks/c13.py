"""C13 — minimum spanning trees (DESIGN §5 C13)."""
import copy
import json
import random

from vlib import tlc
from vlib.pool import run_tasks
from vlib.runner import Check
from drivers import mst as drv

PID, DIR = "C13", "Mst"


def run(tier, seed, replay=None):
    ck = Check(PID, tier, seed)
    rng = random.Random(seed * 7919 + 13)
    if replay:
        case = json.load(open(replay))["trace"]["input"]
        hist_index = case.get("index") if "hist" in case else None
        cases = [case["hist"] if "hist" in case else case]
    else:
        for cfg in ("MC_kruskal.cfg", "MC_prim.cfg", "MC_cert.cfg", "MC_kruskal4.cfg", "MC_prim4.cfg"):
            ck.mc(DIR, "MstAlgs", cfg)
        ck.mc(DIR, "MstAlgs", "NC_kruskal.cfg", expect_violation="KruskalFinal")
        cases = [drv.gen(rng, nmax=4 if i % 4 == 0 else (14 if i % 4 == 1 else 9)) for i in range(500 if tier == "quick" else 8000)]
    res = run_tasks("mst", "run_mst", cases, timeout=120)
    trs, ufs = [], []
    for r, c in zip(res, cases):
        if not isinstance(r, dict) or "main" not in r:
            what = "noreturn" if isinstance(r, dict) and r.get("__noreturn__") else "raise"
            trs.append({"n": c["n"], "edges": c["edges"], "input": c, "events": [{"e": what, "solver": "worker", "what": "WorkerCrash"}]})
        else:
            if replay and hist_index is not None:
                trs.append(r["more"][hist_index])
                continue
            trs.append(r["main"])
            trs += r.get("more", [])
            ufs += r["uf"]
    vs = ck.validate(DIR, "MstTrace", trs, "kruskal (both allow_forest settings) and prim (3 start nodes) on the same multigraph")
    ck.classify(trs, vs, nontrivial=lambda t, v: len(t["edges"]) >= 2)
    # the UnionFind call histories recorded inside kruskal, validated against C20's specification (spec composition)
    uv = ck.validate("C20", "C20Trace", ufs, "UnionFind calls recorded inside kruskal")
    bad = [(t, v) for t, v in zip(ufs, uv) if not v["ok"]]
    ck.extra["unionfind_histories_inside_kruskal"] = len(ufs)
    for t, v in bad:
        ck.report_failure({"input": t["input"]["case"], "uf_trace": t["events"]}, dict(v, why="kruskal:UnionFind." + v["why"]))
    for t in trs:
        for e in t["events"]:
            k = e["solver"] + ":" + e.get("status", e["e"])
            ck.actions[k] = ck.actions.get(k, 0) + 1
    if replay:
        return ck.finish()
    ck.sample({k: v for k, v in trs[0].items() if k != "input"})
    ck.sample({k: v for k, v in trs[-1].items() if k != "input"})
    ctl = []
    for t, v in zip(trs, vs):
        e = t["events"][0]
        if v["ok"] and e.get("status") == "OPTIMAL" and len(e["tree"]) >= 2 and len(t["edges"]) > len(e["tree"]) + 1:
            c = copy.deepcopy(t); c["events"][0]["obj"] += 1; ctl.append((c, "Weight.objective_is_not_sum_of_edges"))
            c = copy.deepcopy(t); c["events"][0]["tree"][0] = list(c["events"][0]["tree"][1]); ctl.append((c, "Tree."))
            c = copy.deepcopy(t); c["events"][0].update(status="INFEASIBLE", tree=[]); ctl.append((c, "Infeasible.but_graph_connected"))
            # swap a tree edge for a heavier non-tree edge if that keeps it spanning: weight no longer minimal
            break
    if not ctl:
        raise tlc.MachineryError("no accepted trace suitable for negative controls")
    cv = ck.validate(DIR, "MstTrace", [c for c, _ in ctl], "negative controls")
    for (c, exp), v in zip(ctl, cv):
        ck.control(f"corrupted trace rejected ({exp} -> {v['why']})", (not v["ok"]) and exp in v["why"], str(v))
    ck.rule = ("random undirected multigraphs, 1-9 nodes, 0-27 edges, parallel edges with differing weights, self loops, many ties, "
               "30% negative weights, integer or quarter-unit weights, connected and disconnected; non-trivial = >= 2 edges; "
               "distinct by hash of the input")
    ck.assumptions = ["prim is given the symmetric adjacency of the same multigraph", "weights integers or multiples of 1/4"]
    return ck.finish()
