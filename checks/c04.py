"""C04 — MILP answers are integer-feasible and OPTIMAL means proven optimal (DESIGN §5 C04)."""
import copy
import json
import random

from vlib import tlc
from vlib.pool import run_tasks
from vlib.runner import Check
from drivers import milp as drv

PID, DIR = "C04", "Bnb"


def run(tier, seed, replay=None):
    ck = Check(PID, tier, seed)
    rng = random.Random(seed * 7919 + 4)
    if replay:
        cases = [json.load(open(replay))["trace"]["input"]]
    else:
        ck.mc(DIR, "Bnb", "MC_bnb1.cfg")
        ck.mc(DIR, "Bnb", "NC_bnb_prune.cfg", expect_violation="Cover")
        ck.mc(DIR, "Bnb", "NC_bnb_ceil.cfg", expect_violation="Cover")
        if tier == "thorough":
            ck.mc(DIR, "Bnb", "MC_bnb2.cfg", timeout=14400)
        cases = [drv.gen(rng) for _ in range(250 if tier == "quick" else 4000)]
        cases += [drv.gen_pairrows(rng) for _ in range(150 if tier == "quick" else 2500)]
        cases += [drv.gen_switch(rng) for _ in range(120 if tier == "quick" else 2000)]
        cases += [drv.gen_genint(rng) for _ in range(100 if tier == "quick" else 1500)]
        cases += [drv.gen_stair(rng) for _ in range(400 if tier == "quick" else 4000)]
    hist_replay = None
    if replay and "history" in cases[0]:
        hist_replay, cases = cases[0], []
    res = run_tasks("milp", "run_milp", cases, timeout=120)
    trs = []
    for r, c in zip(res, cases):
        if not isinstance(r, dict) or "events" not in r:
            what = "noreturn" if isinstance(r, dict) and r.get("__noreturn__") else "raise"
            r = {"A": c["A"], "b": c["b"], "c": c["c"], "n": len(c["c"]), "m": len(c["b"]), "ints": c["ints"], "cv": c["cv"], "ub": c["ub"],
                 "input": c, "events": [{"e": what, "what": "WorkerCrash"}]}
        trs.append(r)
    if hist_replay:
        trs.append(run_tasks("milp", "run_milp_history", [hist_replay["history"]], timeout=300)[0]["traces"][hist_replay["index"]])
    if not replay:
        hist = [drv.gen_history(rng) for _ in range(2000 if tier == "quick" else 20000)]
        for r in run_tasks("milp", "run_milp_history", hist, timeout=300):
            if not isinstance(r, dict) or "traces" not in r:
                raise tlc.MachineryError("milp history worker failed: " + str(r)[:300])
            trs += r["traces"]
        bulk = [{"seed": rng.randint(0, 10 ** 9), "count": 300 if tier == "quick" else 5000} for _ in range(14)]
        cov = {}
        for r in run_tasks("milp", "run_milp_bulk", bulk, timeout=1200):
            if not isinstance(r, dict) or "kept" not in r:
                raise tlc.MachineryError("milp bulk worker failed: " + str(r)[:300])
            trs += r["kept"]
            for k, v in r["cov"].items():
                cov[k] = cov.get(k, 0) + v
        ck.extra["coverage_directed_generation_near_miss_bound_rows"] = cov
    vs = ck.validate(DIR, "MilpTrace", trs, "solve_milp under 22-24 option settings per instance", timeout=14400)
    ck.classify(trs, vs, nontrivial=lambda t, v: t["n"] >= 1)
    for t in trs:
        for e in t["events"]:
            k = e.get("status") or (e["e"] + (":" + e["act"] if "act" in e else "") + (":" + e["src"] if "src" in e else ""))
            ck.actions[k] = ck.actions.get(k, 0) + 1
    ck.extra["instances_with_feasible_integer_point"] = sum(1 for v in vs if v.get("feas"))
    ck.extra["mixed_instances"] = sum(1 for t in trs if t["cv"])
    if replay:
        return ck.finish()
    ck.sample({k: (v if k != "events" else v[:12]) for k, v in trs[0].items() if k != "input"})
    ctl = []

    def ridx(t):
        return [i for i, e in enumerate(t["events"]) if e["e"] in ("ret", "raise", "noreturn")]
    for t, v in zip(trs, vs):
        i0 = ridx(t)[0]
        e = t["events"][i0]
        if v["ok"] and e.get("status") == "OPTIMAL" and v.get("feas") and any(x != 0 for x in e["x"]) and t["n"] >= 2:
            c = copy.deepcopy(t); c["events"][i0]["obj6"] += 1000000; ctl.append((c, "why", "Objective.is_not_c_dot_x"))
            j = t["ints"][0] - 1
            c = copy.deepcopy(t); c["events"][i0]["x"][j] += 500000; ctl.append((c, "why", "Solution."))
            c = copy.deepcopy(t); c["events"][i0]["status"] = "INFEASIBLE"; ctl.append((c, "why", "Infeasible.but_integer_feasible_point_exists"))
            break
    for t, v in zip(trs, vs):        # a feasible but non-optimal point presented as OPTIMAL: use the maximiser's answer for the minimiser
        ri = ridx(t)
        cfgs = t["input"]["configs"]
        k = next((i for i, cf in enumerate(cfgs) if not cf["minimize"]), None)
        if k is None or len(ri) != len(cfgs):
            continue
        e0, e1 = t["events"][ri[0]], t["events"][ri[k]]
        if v["ok"] and e0.get("status") == "OPTIMAL" and e1.get("status") == "OPTIMAL" and abs(e0["obj6"] - e1["obj6"]) > 1000000:
            c = copy.deepcopy(t); c["events"][ri[0]].update(x=e1["x"], obj6=e1["obj6"]); ctl.append((c, "why", "Optimal.but_better_point_exists"))
            break
    n_ret = len(ctl)
    # step level (Bnb actions): corrupt one logged field of a branch / prune / integral event -> the matching guard must fire
    want = {"Branch.children_do_not_partition_parent": 0, "Node.box_not_open": 0, "Prune.box_contains_better_point": 0,
            "Incumbent(": 0}
    for t, v in zip(trs, vs):
        if not v["ok"] or v.get("div"):
            continue
        for i, e in enumerate(t["events"]):
            if e["e"] == "milp_node" and e["act"] == "branch" and want["Branch.children_do_not_partition_parent"] < 2:
                c = copy.deepcopy(t); c["events"][i]["right_lower"][e["var"] - 1] += 1
                ctl.append((c, "div", "Branch.children_do_not_partition_parent")); want["Branch.children_do_not_partition_parent"] += 1
            elif e["e"] == "milp_node" and e["act"] == "branch" and want["Node.box_not_open"] < 2:
                c = copy.deepcopy(t); c["events"][i]["lower"][e["var"] - 1] += 1
                ctl.append((c, "div", "Node.box_not_open")); want["Node.box_not_open"] += 1
            elif e["e"] == "milp_incumbent" and want["Incumbent("] < 2:
                c = copy.deepcopy(t); c["events"][i]["obj6"] += 3000000
                ctl.append((c, "div", "Incumbent(")); want["Incumbent("] += 1
            elif e["e"] == "milp_node" and e["act"] == "integral" and want["Prune.box_contains_better_point"] < 2 and v.get("feas"):
                # an integral node relabelled as a bound prune while no incumbent justifies it
                c = copy.deepcopy(t); c["events"][i] = {"e": "milp_node", "act": "prune_bound", "lower": e["lower"], "upper": e["upper"]}
                ctl.append((c, "div", "Prune.")); want["Prune.box_contains_better_point"] += 1
        if all(x >= 2 for x in want.values()):
            break
    if n_ret < 4 or len(ctl) - n_ret < 4:
        raise tlc.MachineryError("negative controls could not be built: %d return-level, %d step-level" % (n_ret, len(ctl) - n_ret))
    cv = ck.validate(DIR, "MilpTrace", [c for c, _, _ in ctl], "negative controls")
    stepfired = {}
    for (c, where, exp), v in zip(ctl, cv):
        if where == "why":
            ck.control(f"corrupted trace rejected ({exp} -> {v['why']})", (not v["ok"]) and v["why"].startswith(exp), str(v))
        else:
            hit = any(d.startswith(exp) for d in v.get("div", []))
            stepfired[exp] = stepfired.get(exp, 0) + hit
    for exp, k in stepfired.items():
        ck.control(f"corrupted branch-and-bound event flagged by the Bnb action guard {exp}* ({k} variants)", k > 0, str(cv)[:400])
    ck.rule = ("random bounded MILPs with integer data: 1-3 variables (at most one continuous), bounds 1..4 (40% binaries, with and without "
               "explicit x<=1 rows in shuffled order), knapsack-, cover- and mixed-sign rows; per instance 22-24 calls: minimize/maximize x "
               "{default, heuristics off, feasible-looking / fractional / wrong-length / negative-on-the-continuous-variable warm start, lns_iterations=3, solution_limit=3}; "
               "non-trivial = every instance; distinct by hash")
    ck.assumptions = ["every variable carries an explicit upper bound row (finite integer part)", "max_nodes / max_iter at their defaults"]
    return ck.finish()
