from checks import cpcommon


def run(tier, seed, replay=None):
    return cpcommon.run("C06", tier, seed, replay)
