"""C16 — knapsack / bin packing (DESIGN §5 C16)."""
import copy
import json
import random

from vlib import tlc
from vlib.pool import run_tasks
from vlib.runner import Check
from drivers import pack as drv

PID, DIR = "C16", "Pack"


def _fix(res, cases, kind):
    out = []
    for r, c in zip(res, cases):
        if not isinstance(r, dict) or "events" not in r:
            what = "noreturn" if isinstance(r, dict) and r.get("__noreturn__") else "raise"
            r = {"kind": kind, "values": c.get("values", []), "weights": c.get("weights", []), "capacity": c["capacity"], "sizes": c.get("sizes", []),
                 "integral": c["scale"] == 1, "input": c, "events": [{"e": what, "what": "WorkerCrash"}]}
        out.append(r)
    return out


def run(tier, seed, replay=None):
    ck = Check(PID, tier, seed)
    rng = random.Random(seed * 7919 + 16)
    if replay:
        tr = json.load(open(replay))["trace"]
        fn = "run_knap" if tr["kind"] == "knap" else "run_bins"
        trs = _fix(run_tasks("pack", fn, [tr["input"]], timeout=120), [tr["input"]], tr["kind"])
        ck.classify(trs, ck.validate(DIR, "PackTrace", trs, "replay"))
        return ck.finish()
    ck.mc(DIR, "PackAlgs", "MC_knap3.cfg")
    ck.mc(DIR, "PackAlgs", "MC_fit4.cfg")
    ck.mc(DIR, "PackAlgs", "NC_knap.cfg", expect_violation="KnapFinal")
    if tier == "thorough":
        ck.mc(DIR, "PackAlgs", "MC_knap4.cfg", timeout=14400)
        ck.mc(DIR, "PackAlgs", "MC_fit5.cfg", timeout=14400)
    nq = 500 if tier == "quick" else 8000
    kc = [drv.gen_knap(rng) for _ in range(nq)]
    bc = [drv.gen_bins(rng) for _ in range(nq)]
    trs = _fix(run_tasks("pack", "run_knap", kc, timeout=120), kc, "knap") + _fix(run_tasks("pack", "run_bins", bc, timeout=120), bc, "bins")
    vs = ck.validate(DIR, "PackTrace", trs, "solve_knapsack (max/min) and solve_bin_pack (4 heuristics)", timeout=14400)
    ck.classify(trs, vs, nontrivial=lambda t, v: len(t["values"]) + len(t["sizes"]) >= 2)
    for t in trs:
        for e in t["events"]:
            k = t["kind"] + ":" + e.get("status", e["e"])
            ck.actions[k] = ck.actions.get(k, 0) + 1
    ck.sample({k: v for k, v in trs[0].items() if k != "input"})
    ck.sample({k: v for k, v in trs[-1].items() if k != "input"})
    ctl = []
    for t, v in zip(trs, vs):
        e = t["events"][0]
        if v["ok"] and t["kind"] == "knap" and e.get("status") == "OPTIMAL" and len(e["items"]) >= 2 and t["integral"] and not any(x[1].startswith("Knap") for x in ctl):
            c = copy.deepcopy(t); c["events"][0]["obj"] += 1; ctl.append((c, "Knapsack.objective_is_not_sum_of_values"))
            drop = e["items"][0]
            if t["values"][drop] > 0:
                c = copy.deepcopy(t); c["events"][0]["items"] = e["items"][1:]; c["events"][0]["obj"] = e["obj"] - t["values"][drop]
                ctl.append((c, "Knapsack.optimal_but_better_subset_exists"))
        if v["ok"] and t["kind"] == "bins" and e.get("k", 0) >= 2 and not any(x[1].startswith("Bin") for x in ctl):
            c = copy.deepcopy(t); a = c["events"][0]["assignment"]; a[:] = [0] * len(a); c["events"][0]["k"] = 1; ctl.append((c, "BinPack.bin_over_capacity"))
            c = copy.deepcopy(t); c["events"][0]["status"] = "OPTIMAL"; c["events"][0]["k"] += 1
            c["events"][0]["assignment"] = list(e["assignment"]); ctl.append((c, "BinPack."))
    if len(ctl) < 3:
        raise tlc.MachineryError("negative controls could not be built")
    cv = ck.validate(DIR, "PackTrace", [c for c, _ in ctl], "negative controls")
    for (c, exp), v in zip(ctl, cv):
        ck.control(f"corrupted trace rejected ({exp} -> {v['why']})", (not v["ok"]) and v["why"].startswith(exp), str(v))
    ck.rule = ("random item lists: knapsack 1-8 items, bin packing 1-7 items; integer, one- and two-digit decimal data (incl. 0.1/0.2/0.3/0.7 "
               "multiples), zero weights, zero capacity, subsets exactly filling the capacity, ties; both knapsack directions, all four "
               "packing heuristics; non-trivial = >= 2 items; distinct by hash")
    ck.assumptions = ["decimal inputs are passed as the float nearest to the decimal literal; all sums are re-done in exact scaled integers",
                      "knapsack optimality is only claimed for integer weights and capacity (as the statement says)"]
    return ck.finish()
