"""C11 — shortest-path solvers (DESIGN §5 C11)."""
import copy
import json
import random

from vlib import tlc
from vlib.pool import run_tasks
from vlib.runner import Check
from drivers import paths as drv

PID, DIR = "C11", "Paths"


def _fix(res, cases, fn):
    out = []
    for r, c in zip(res, cases):
        if not isinstance(r, dict) or "events" not in r:
            what = "noreturn" if isinstance(r, dict) and r.get("__noreturn__") else "raise"
            ev = [{"e": what, "solver": "worker", "what": "WorkerCrash"}]
            if fn == "run_graph":
                r = {"kind": "graph", "n": c["n"], "edges": c["edges"], "events": ev, "input": c}
            else:
                r = {"kind": "grid", "grid": c["grid"], "directions": c["directions"], "start": c["start"], "goal": c["goal"],
                     "blocked": c["blocked"], "costs": c.get("costs") or [], "events": ev, "input": c}
        out.append(r)
    return out


def run(tier, seed, replay=None):
    ck = Check(PID, tier, seed)
    rng = random.Random(seed * 7919 + 11)
    if replay:
        rp = json.load(open(replay))
        case = rp["trace"]["input"]
        fn = "run_grid" if rp["trace"]["kind"] == "grid" else "run_graph"
        trs = _fix(run_tasks("paths", fn, [case], timeout=120), [case], fn)
        ck.classify(trs, ck.validate(DIR, "PathsTrace", trs, "replay"))
        return ck.finish()
    ck.mc(DIR, "PathAlgs", "MC_label3.cfg")
    ck.mc(DIR, "PathAlgs", "MC_bf3.cfg")
    ck.mc(DIR, "PathAlgs", "MC_fw3.cfg")
    ck.mc(DIR, "PathAlgs", "NC_label.cfg", expect_violation="ClosedExact")
    ck.mc(DIR, "PathAlgs", "NC_bf.cfg", expect_violation="BfFinal")
    if tier == "thorough":
        ck.mc(DIR, "PathAlgs", "MC_label3t.cfg", timeout=14400)
        ck.mc(DIR, "PathAlgs", "MC_bf3t.cfg", timeout=14400)
        ck.mc(DIR, "PathAlgs", "MC_fw3t.cfg", timeout=14400)
        ck.mc(DIR, "PathAlgs", "MC_twin.cfg", timeout=14400)
    ng = 600 if tier == "quick" else 4000
    gcases = [drv.gen_graph(rng, small=(i % 3 == 0)) for i in range(ng)]
    grids = []
    for d in (4, 8):
        grids += drv.all_small_grids(2, 3, d) + drv.all_small_grids(3, 2, d)
        if tier == "thorough":
            grids += drv.all_small_grids(3, 3, d) + drv.all_small_grids(3, 4, d)
    nexh = len(grids)
    grids += [drv.gen_grid(rng) for _ in range(300 if tier == "quick" else 2500)]
    gt = _fix(run_tasks("paths", "run_graph", gcases, timeout=120), gcases, "run_graph")
    rt = _fix(run_tasks("paths", "run_grid", grids, timeout=120), grids, "run_grid")
    trs = gt + rt
    vs = ck.validate(DIR, "PathsTrace", trs, "every applicable solver on each graph / grid", timeout=14400)
    ck.classify(trs, vs, nontrivial=lambda t, v: (t["kind"] == "graph" and len(t["edges"]) > 0) or (t["kind"] == "grid" and len(t["grid"]) * len(t["grid"][0]) > 1))
    for t in trs:
        for e in t["events"]:
            k = e["solver"] + ":" + e.get("status", e["e"])
            ck.actions[k] = ck.actions.get(k, 0) + 1
    ck.extra["grids_enumerated_exhaustively"] = nexh
    ck.sample({k: v for k, v in gt[1].items() if k != "input"} if len(json.dumps(gt[1])) < 6000 else {"n": gt[1]["n"], "edges": gt[1]["edges"]})
    ck.sample({k: v for k, v in rt[-1].items() if k != "input"})
    # negative controls
    ctl = []
    for t, v in zip(gt, vs):
        if not v["ok"]:
            continue
        for i, e in enumerate(t["events"]):
            if e.get("mode") == "target" and e.get("has_path") and len(e["path"]) >= 3 and e["solver"] in ("dijkstra", "bellman_ford") and e.get("exact"):
                c = copy.deepcopy(t); c["events"][i]["obj"] += 1; ctl.append((c, "Path.weights_do_not_sum_to_objective|Distance.not_shortest"))   # both are false then
                c = copy.deepcopy(t); p = c["events"][i]["path"]; p[1], p[-1] = p[-1], p[1]; ctl.append((c, "Path."))
                c = copy.deepcopy(t); c["events"][i].update(status="INFEASIBLE", has_path=False, path=[]); ctl.append((c, "Infeasible.but_target_reachable"))
                break
        if len(ctl) >= 3:
            break
    if len(ctl) < 3:
        raise tlc.MachineryError("no suitable accepted trace for negative controls")
    cv = ck.validate(DIR, "PathsTrace", [c for c, _ in ctl], "negative controls")
    for (c, exp), v in zip(ctl, cv):
        ck.control(f"corrupted trace rejected ({exp} -> {v['why']})", (not v["ok"]) and any(x in v["why"] for x in exp.split("|")), str(v))
    # ---- step level: every node dijkstra / astar take off the frontier, with its label, against the label-setting invariant
    st = [r for r in run_tasks("paths", "run_settle", gcases[: 300 if tier == "quick" else 4000], timeout=120) if isinstance(r, dict) and "calls" in r]
    if st:
        sv = ck.validate(DIR, "SettleSteps", st, "settle events of dijkstra / astar", timeout=3000)
        for v in sv:
            for d in v.get("div", []):
                ck.divergences["settle:" + d] = ck.divergences.get("settle:" + d, 0) + 1
        ck.extra["settle_step_level"] = {"graphs": len(st), "calls": sum(v.get("calls", 0) for v in sv), "nodes_settled": sum(v.get("settled", 0) for v in sv),
                                         "graphs_with_divergence": sum(1 for v in sv if v.get("div"))}
        sctl = []
        for t, v in zip(st, sv):
            cs = [i for i, c in enumerate(t["calls"]) if len(c["settled"]) >= 3 and c["exact"]]
            if v.get("div") or not cs:
                continue
            i = cs[0]
            c = copy.deepcopy(t); c["calls"][i]["settled"][-1][1] += 1; sctl.append((c, "Settle.label_is_not"))
            c = copy.deepcopy(t); c["calls"][i]["settled"].append(list(c["calls"][i]["settled"][0])); sctl.append((c, "Settle.node_settled_twice"))
            break
        if not sctl:
            raise tlc.MachineryError("no settle trace suitable for step-level controls")
        for (c, exp), v in zip(sctl, ck.validate(DIR, "SettleSteps", [c for c, _ in sctl], "step-level negative controls")):
            ck.control(f"corrupted settle event flagged ({exp}*)", any(exp in d for d in v.get("div", [])), str(v)[:300])
    else:
        ck.notes.append("no settle events were recorded (hooks absent): label-setting step level skipped")
    ck.rule = ("random digraphs with 1-9 nodes, duplicate edges with different weights, self loops, zero weights, 35% with negative "
               "weights, integer or quarter-unit weights, int/str/tuple/negative labels, 2 queries each (value and predicate goals, "
               "max_cost); every applicable solver per graph; all 2x3 / 3x2 grids (3x3, 3x4 thorough) with every obstacle layout in "
               "4- and 8-neighbour mode plus random grids to 7x7 with terrain costs; non-trivial = graph with an edge / grid with > 1 "
               "cell; distinct by hash of the input")
    ck.exhaustive = True
    ck.assumptions = ["weights are integers or multiples of 1/4 (exact in binary floating point)",
                      "astar heuristics are consistent by construction (half the true remaining distance, or 0)",
                      "grid terrain costs are integers >= 1 (keeps the built-in heuristics admissible)"]
    return ck.finish()
