"""Shared flow for C05 (Model.solve) and C06 (encoder translation validation)."""
import copy
import json
import random

from vlib import tlc
from vlib.pool import run_tasks
from vlib.runner import Check
from drivers import cp as drv

DIR = "Cp"


def gen_cases(rng, n):
    cases = []
    for i in range(n):
        r = rng.random()
        if r < 0.12:
            cases.append(drv.gen_case(rng, circuit_friendly=True))
        elif r < 0.2:
            cases.append(drv.gen_cumulative_wide(rng))
        elif r < 0.26:
            cases.append(drv.gen_no_overlap_windows(rng))
        else:
            cases.append(drv.gen_case(rng))
    return cases


def run(pid, tier, seed, replay=None):
    ck = Check(pid, tier, seed, level="model_checking")
    rng = random.Random(seed * 7919 + 5)
    fn = "run_enc" if pid == "C06" else "run_solve"
    if replay:
        rp = json.load(open(replay))
        case = rp["trace"]["input"]
        if rp["trace"].get("history"):
            fn = "run_enc_history" if pid == "C06" else "run_solve_history"
        trs = [t for t in run_tasks("cp", fn, [case], timeout=120) if isinstance(t, dict) and "kind" in t]
        vs = ck.validate(DIR, "CpTrace", trs, "replay")
        ck.classify(trs, vs)
        return ck.finish()

    ck.mc(DIR, "CpTwin", "MC_CpTwin.cfg")
    ck.mc(DIR, "CpTwin", "MC_CpTwin4.cfg")
    ck.mc("Cdcl", "DpllTwin", "MC_DpllTwin.cfg")

    n = 500 if tier == "quick" else 6000
    cases = gen_cases(rng, n)
    res = run_tasks("cp", fn, cases, timeout=120)
    trs = []
    unsupported = 0
    for c, r in zip(cases, res):
        if isinstance(r, dict) and r.get("unsupported"):
            unsupported += 1
            continue
        if not isinstance(r, dict) or "kind" not in r:
            what = "noreturn" if isinstance(r, dict) and r.get("__noreturn__") else "raise"
            r = {"kind": "solve", "doms": [[lb, ub] for _, lb, ub in c["vars"]], "named": [True] * len(c["vars"]), "cons": [],
                 "input": c, "events": [{"e": what, "what": "WorkerCrash"}]}
        trs.append(r)
    if pid == "C05":       # call histories: solve, then extend the same Model object, then solve again
        hc = [drv.gen_history_case(rng, aux=i % 2 == 0) for i in range(n // 3)]
        for c, r in zip(hc, run_tasks("cp", "run_solve_history", hc, timeout=120)):
            if isinstance(r, dict) and r.get("unsupported"):
                unsupported += 1
            elif isinstance(r, dict) and "kind" in r:
                trs.append(r)
            else:
                what = "noreturn" if isinstance(r, dict) and r.get("__noreturn__") else "raise"
                trs.append({"kind": "solve", "doms": [[lb, ub] for _, lb, ub in c["vars"]], "named": [True] * len(c["vars"]), "cons": [],
                            "input": c, "events": [{"e": what, "what": "WorkerCrash"}]})
        ck.extra["model_histories_solve_extend_solve"] = len(hc)
    if pid == "C06":       # encoder over call histories: solve, extend the same Model object, encode again
        hc = [drv.gen_history_case(rng, aux=i % 2 == 0) for i in range(n // 3)]
        for i, c in enumerate(hc):
            c["presolves"] = 1 + (i % 3 == 2)
            c["prelimit"] = 1 if i % 4 else 3
        for c, r in zip(hc, run_tasks("cp", "run_enc_history", hc, timeout=120)):
            if isinstance(r, dict) and r.get("unsupported"):
                unsupported += 1
            elif isinstance(r, dict) and "kind" in r:
                trs.append(r)
            else:
                what = "noreturn" if isinstance(r, dict) and r.get("__noreturn__") else "raise"
                trs.append({"kind": "solve", "doms": [[lb, ub] for _, lb, ub in c["vars"]], "named": [True] * len(c["vars"]), "cons": [],
                            "input": c, "events": [{"e": what, "what": "WorkerCrash"}]})
        ck.extra["model_histories_solve_extend_encode"] = len(hc)
    ck.extra["cases_rejected_by_public_operators_TypeError"] = unsupported
    vs = ck.validate(DIR, "CpTrace", trs, "CP models built through the public operators", timeout=3000, chunk=40 if pid == "C06" else None)
    ck.classify(trs, vs, nontrivial=lambda t, v: v.get("nsol", 0) > 0 or len(t["cons"]) > 0)
    shapes = {}
    for t in trs:
        for c in t["cons"]:
            shapes[c["shape"]] = shapes.get(c["shape"], 0) + 1
    ck.actions = shapes
    if pid == "C06":
        ck.level = "model_checking"
        ck.extra["programs"] = len(trs)
        ck.extra["disagreements_checked"] = sum(1 for v in vs if not v["ok"])
        ck.extra["assignments_decided_by_dpll"] = sum(_nasg(t) for t in trs)
        ck.extra["max_cnf_booleans"] = max((t.get("nbool", 0) for t in trs), default=0)
    else:
        ck.extra["solve_calls_checked"] = sum(len(t.get("events", [])) for t in trs)
    for t in trs[:3]:
        ck.sample({k: v for k, v in t.items() if k not in ("input",)} if len(json.dumps(t)) < 3000 else
                  {"doms": t["doms"], "cons": t["cons"], "note": "cnf/events omitted (large)"})

    # ---- binding demonstration
    good = [(t, v) for t, v in zip(trs, vs) if v["ok"] and v.get("nsol", 0) > 0]
    ctl = []
    if pid == "C06":
        for t, v in good:
            if len(t["cnf"]) > len(t["doms"]) * 2 + 2 and t["cons"]:
                c = copy.deepcopy(t)
                # add a clause forbidding the first value of variable 1 -> some model must go missing or stay
                c["cnf"].append([-t["bmap"][0][0]])
                ctl.append((c, "Encoding.missing_model"))
                c2 = copy.deepcopy(t)
                c2["cnf"] = [cl for cl in t["cnf"][: sum(1 + (hi - lo + 1) * (hi - lo) // 2 for lo, hi in t["doms"])]]
                ctl.append((c2, "Encoding.extra_model"))
            if len(ctl) >= 12:
                break
    else:
        for t, v in good:
            for i, e in enumerate(t["events"]):
                if e.get("e") == "solve" and e["sols"] and e["sols"][0]:
                    c = copy.deepcopy(t)
                    c["events"][i]["sols"][0][0][1] += 7
                    ctl.append((c, "Solution.value_outside_domain"))
                    c2 = copy.deepcopy(t)
                    c2["events"][i].update(status="INFEASIBLE", sols=[])
                    ctl.append((c2, "ReturnInfeasible.model_is_satisfiable"))
                    break
            if len(ctl) >= 8:
                break
    cv = ck.validate(DIR, "CpTrace", [c for c, _ in ctl], "negative controls")
    fired = {}
    for (c, exp), v in zip(ctl, cv):
        if not v["ok"] and v["why"] == exp:
            fired[exp] = fired.get(exp, 0) + 1
    for exp in sorted({e for _, e in ctl}):
        ck.control(f"corrupted trace rejected as {exp} ({fired.get(exp, 0)} variants)", fired.get(exp, 0) > 0, str(cv)[:400])
    if not ctl:
        raise tlc.MachineryError("no negative controls could be built")

    ck.rule = ("grammar-based generator over the public constructors: 2-4 variables (8% unnamed), domains of 1-5 values with "
               "arbitrary offsets, 1-3 constraints drawn from every kind and 20 expression templates (sums, differences, "
               "k*x, x*k, constants on either side, nested), circuit-friendly and wide-cumulative families; "
               "non-trivial = model with at least one constraint; distinct by hash of the case")
    ck.assumptions = ["unnamed variables are read existentially", "Dpll oracle (twin-checked)"]
    return ck.finish()


def _nasg(t):
    n = 1
    for lo, hi in t["doms"]:
        n *= hi - lo + 1
    return n
