"""C12 — Rust and Python back-ends are observably equivalent (DESIGN §5 C12)."""
import copy
import json
import random

from vlib import rustbuild, tlc
from vlib.pool import run_tasks
from vlib.runner import Check
from drivers import backends as drv

PID = "C12"


def run(tier, seed, replay=None):
    ck = Check(PID, tier, seed)
    rng = random.Random(seed * 7919 + 12)
    ov = rustbuild.build_overlay()          # rebuilt from /repo/rust's working tree; never a stale binary
    try:
        if replay:
            cases = [json.load(open(replay))["trace"]["input"]]
            cases = [c.get("case", c) for c in cases]
        else:
            cases = [drv.gen(rng, nmax=4 if i % 3 == 0 else 10) for i in range(250 if tier == "quick" else 4000)]
        res = run_tasks("backends", "run_backends", cases, timeout=120, pythonpath_first=ov)
    finally:
        rustbuild.cleanup(ov)
    same, fam = [], {"paths": [], "mst": [], "scc": [], "gp": []}
    for r, c in zip(res, cases):
        if isinstance(r, dict) and r.get("__norust__"):
            raise tlc.MachineryError("the rebuilt Rust extension could not be imported in the worker")
        if not isinstance(r, dict) or "same" not in r:
            what = "NoReturn" if isinstance(r, dict) and r.get("__noreturn__") else "WorkerCrash"
            ck.report_failure({"input": c}, {"ok": False, "why": what, "div": [], "wit": []})
            continue
        same += r["same"]
        for k in fam:
            fam[k].append(r[k])
    # each side against the functional specification of its family
    for key, d, mod in (("paths", "Paths", "PathsTrace"), ("mst", "Mst", "MstTrace"), ("scc", "Scc", "SccTrace"), ("gp", "GraphProps", "GpTrace")):
        vs = ck.validate(d, mod, fam[key], f"{key}: every back-end's result against the family's functional specification", timeout=3000)
        ck.classify(fam[key], [dict(v, why=f"{key}:" + v["why"]) if not v["ok"] else v for v in vs], count=False)
    sv = ck.validate("Backends", "BackendsTrace", same, "pairwise Same relation between the python / rust / default results")
    ck.classify(same, sv, nontrivial=lambda t, v: True)
    for t in same:
        ck.actions[t["fn"]] = ck.actions.get(t["fn"], 0) + 1
    ck.extra["programs"] = len(same)
    ck.extra["disagreements_checked"] = sum(1 for v in sv if not v["ok"])
    if replay:
        return ck.finish()
    ck.sample({k: v for k, v in same[0].items() if k != "input"})
    ck.sample({k: v for k, v in same[len(same) // 2].items() if k != "input"})
    ctl = []
    for t, v in zip(same, sv):
        if v["ok"] and t["fn"] == "kruskal" and t["rets"][0].get("status") == "OPTIMAL" and len(ctl) == 0:
            c = copy.deepcopy(t); c["rets"][1]["meaning"][0] += 1; ctl.append((c, "kruskal:python_vs_rust_differ"))
        if v["ok"] and t["fn"] == "pagerank_edges" and t["rets"][0].get("e") == "ret" and t["n"] >= 2 and len(ctl) == 1:
            c = copy.deepcopy(t); c["rets"][2]["scores"][0] += 3000; ctl.append((c, "pagerank_edges:rust_vs_default_differ"))
        if v["ok"] and t["fn"] == "dfs_edges" and len(ctl) == 2:
            c = copy.deepcopy(t); c["rets"][1]["status"] = "MAX_ITER"; ctl.append((c, "dfs_edges:python_vs_rust_differ"))
    if len(ctl) < 3:
        raise tlc.MachineryError("negative controls could not be built")
    cv = ck.validate("Backends", "BackendsTrace", [c for c, _ in ctl], "negative controls")
    for (c, exp), v in zip(ctl, cv):
        ck.control(f"corrupted trace rejected ({exp})", (not v["ok"]) and v["why"] == exp, str(v))
    ck.rule = ("random digraphs, 1-10 nodes, duplicate and anti-parallel edges with different weights, self loops, isolated nodes, 30% "
               "negative weights, integer / quarter weights; each of the nine accelerated functions (directed and undirected, with and "
               "without target, both allow_forest settings) under python / rust / default; extension rebuilt from /repo/rust; "
               "non-trivial = every call triple; distinct by hash of (function, arguments)")
    ck.assumptions = ["orders of reachable-node lists and the objective field of topological_sort_edges / all-distances calls are not part of "
                      "the 'meaning' (statement: identical reachability / distances / total weight / partition)",
                      "cargo build --offline of /repo/rust succeeds"]
    return ck.finish()
