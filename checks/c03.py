"""C03 — LP verdicts and optima (DESIGN §5 C03)."""
import copy
import json
import os
import random
import shutil

from vlib import tlc
from vlib.pool import run_tasks
from vlib.runner import Check
from drivers import lp as drv

PID, DIR = "C03", "Lp"


def run(tier, seed, replay=None):
    ck = Check(PID, tier, seed)
    rng = random.Random(seed * 7919 + 3)
    nexp = 0
    if replay:
        cases = [json.load(open(replay))["trace"]["input"]]
    else:
        ck.mc(DIR, "Simplex", "MC_simplex3.cfg")
        ck.mc(DIR, "Simplex", "NC_simplex.cfg", expect_violation="BasisFeasible")
        if tier == "thorough":
            ck.mc(DIR, "Simplex", "MC_simplex4.cfg", timeout=14400)
        wd = tlc.scratch("exp-")
        f = os.path.join(wd, "lp.ndjson")
        r = tlc.run_tlc(os.path.join(tlc.SPECS, DIR), "LpExport", "LpExport.cfg", env={"EXPORT_FILE": f})
        if "No error has been found" not in r["out"] or not os.path.exists(f):
            raise tlc.MachineryError("LP export failed:\n" + r["out"][-1500:])
        exported = [json.loads(x) for x in open(f)]
        shutil.rmtree(wd, ignore_errors=True)
        if tier == "quick":
            exported = rng.sample(exported, 1200)
        cases = [{"A": d["A"], "b": d["b"], "c": d["c"], "expect_smin": d["smin"]} for d in exported]
        nexp = len(cases)
        ck.extra["tlc_exported_lps"] = nexp
        cases += [drv.gen(rng, big=(i % 3 == 0)) for i in range(900 if tier == "quick" else 10000)]
        cases += [drv.gen_negative_rhs(rng) for _ in range(2000 if tier == "quick" else 40000)]
        # no variables: every row reads 0 <= b_i
        cases += [{"A": [[] for _ in b], "b": b, "c": []} for b in ([-1], [1], [0, 2], [1, -1], [0])]
    res = run_tasks("lp", "run_lp", cases, timeout=120)
    trs = []
    for r, c in zip(res, cases):
        if not isinstance(r, dict) or "events" not in r:
            what = "noreturn" if isinstance(r, dict) and r.get("__noreturn__") else "raise"
            r = {"A": c["A"], "b": c["b"], "c": c["c"], "m": len(c["b"]), "n": len(c["c"]), "cden": c.get("cden", 1), "input": c, "events": [{"e": what, "solver": "worker", "what": "WorkerCrash"}]}
        trs.append(r)
    vs = ck.validate(DIR, "LpTrace", trs, "solve_lp and solve_lp_interior, minimize and maximize", timeout=14400)
    ck.classify(trs, vs, nontrivial=lambda t, v: t["m"] * t["n"] >= 2)
    for c, v in zip(cases[:nexp], vs[:nexp]):
        if v.get("smin") != c["expect_smin"]:
            raise tlc.MachineryError("exported verdict differs from the trace spec's oracle")
    for t, v in zip(trs, vs):
        for e in t["events"]:
            k = e["solver"] + ":" + e.get("status", e["e"])
            ck.actions[k] = ck.actions.get(k, 0) + 1
        ck.actions["oracle:" + v.get("smin", "?")] = ck.actions.get("oracle:" + v.get("smin", "?"), 0) + 1
    if replay:
        return ck.finish()
    ck.sample({k: v for k, v in trs[0].items() if k != "input"})
    ck.sample({k: v for k, v in trs[-1].items() if k != "input"})
    # ---- step level: phase-2 pivot sequences (wrapped module functions) replayed as Simplex!Pivot actions on the exact data
    plain = [c for c in cases[nexp:] if not c.get("rowden") and c.get("cden", 1) == 1]
    sc = cases[:nexp][: 150 if tier == "quick" else 1500] + plain[: 400 if tier == "quick" else 5000]
    st = [x for r in run_tasks("lp", "run_lp_steps", sc, timeout=120) if isinstance(r, dict) for x in r.get("steps", [])]
    if len(st) < len(sc) // 2:
        raise tlc.MachineryError("simplex step traces could not be recorded (%d from %d LPs)" % (len(st), len(sc)))
    sv = ck.validate(DIR, "SimplexSteps", st, "phase-2 pivot sequences of solve_lp", timeout=14400)
    for v in sv:
        for d in v.get("div", []):
            ck.divergences["simplex_step:" + d] = ck.divergences.get("simplex_step:" + d, 0) + 1
    ck.extra["simplex_step_level"] = {"runs": len(st), "pivots_replayed": sum(v.get("pivots", 0) for v in sv),
                                      "runs_with_divergence": sum(1 for v in sv if v.get("div"))}
    sctl = []
    for t, v in zip(st, sv):
        if v.get("div") or len(t["pivots"]) < 2 or max(t["basis0"]) > t["m"] + t["n"]:
            continue
        c = copy.deepcopy(t); c["pivots"][0][1] = t["basis0"][0]; sctl.append((c, "Pivot."))               # a basic column "enters"
        c = copy.deepcopy(t); c["pivots"] = c["pivots"][:-1]; sctl.append((c, "Declare."))                 # stops one pivot early
        c = copy.deepcopy(t); c["pivots"][0][0] = c["pivots"][0][0] % t["m"] + 1; sctl.append((c, "Pivot."))  # wrong leaving row
        if len(sctl) >= 9:
            break
    if len(sctl) < 3:
        raise tlc.MachineryError("no simplex run with >= 2 pivots for the step-level controls")
    fired = {}
    for (c, exp), v in zip(sctl, ck.validate(DIR, "SimplexSteps", [c for c, _ in sctl], "step-level negative controls")):
        fired[exp] = fired.get(exp, 0) + any(d.startswith(exp) or d.startswith("Bland.") for d in v.get("div", []))
    for exp, k in fired.items():
        ck.control(f"corrupted pivot record flagged by a Simplex guard {exp}* ({k} variants)", k > 0, str(fired))
    ctl = []
    for t, v in zip(trs[nexp:], vs[nexp:]):
        e = t["events"][0]
        if v["ok"] and e.get("status") == "OPTIMAL" and t["m"] >= 2 and t["n"] >= 2 and any(x != 0 for x in e["x4"]) and any(cc != 0 for cc in t["c"]):
            c = copy.deepcopy(t); c["events"][0]["obj6"] += 500; c["events"][0]["obj4"] += 5; ctl.append((c, "simplex:Objective."))
            c = copy.deepcopy(t); c["events"][0]["status"] = "UNBOUNDED"; ctl.append((c, "simplex:Verdict.UNBOUNDED_but_problem_is_OPTIMAL"))
            j = max(range(t["n"]), key=lambda k: abs(e["x4"][k]))
            c = copy.deepcopy(t); c["events"][0]["x4"][j] = -20000; ctl.append((c, "simplex:Point.negative_coordinate"))
            break
    if len(ctl) < 3:
        raise tlc.MachineryError("negative controls could not be built")
    cv = ck.validate(DIR, "LpTrace", [c for c, _ in ctl], "negative controls")
    for (c, exp), v in zip(ctl, cv):
        ck.control(f"corrupted trace rejected ({exp} -> {v['why']})", (not v["ok"]) and v["why"].startswith(exp), str(v))
    ck.rule = ("LPs with m = n = 2 over {-1,0,2} exported by TLC with the oracle's verdict (all 6561 in thorough, a seeded sample of 1200 in "
               "quick); random LPs up to 4x4 with entries in -5..5 (-3..3 for size 4), repeated/parallel rows, zero rows and columns, "
               "degenerate right-hand sides, negative right-hand sides (phase 1), int and float inputs; four calls per LP; non-trivial = "
               ">= 2 coefficients")
    ck.assumptions = ["integer data bounded so that every product in the exact oracle stays below 2^31",
                      "simplex answers compared at 1e-6 (objective) / 1e-4 (point); interior point with the property's own tolerances"]
    return ck.finish()
