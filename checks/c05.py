from checks import cpcommon


def run(tier, seed, replay=None):
    return cpcommon.run("C05", tier, seed, replay)
