"""C10 — Hungarian assignment (DESIGN §5 C10)."""
import copy
import json
import os
import random
import shutil

from vlib import tlc
from vlib.pool import run_tasks
from vlib.runner import Check
from drivers import assign as drv

PID, DIR = "C10", "Assign"


def run(tier, seed, replay=None):
    ck = Check(PID, tier, seed)
    rng = random.Random(seed * 7919 + 10)
    if replay:
        cases = [json.load(open(replay))["trace"]["input"]]
        nexp = 0
    else:
        ck.mc(DIR, "Hungarian", "MC_hung2.cfg")
        ck.mc(DIR, "Hungarian", "MC_hung3.cfg")
        ck.mc(DIR, "Hungarian", "NC_hung.cfg", expect_violation="DualFeasible")
        cases = []
        for cfg in ["Export_2x2.cfg", "Export_2x3.cfg", "Export_3x2.cfg"] + (["Export_3x3.cfg"] if tier == "thorough" else []):
            wd = tlc.scratch("exp-")
            f = os.path.join(wd, "m.ndjson")
            r = tlc.run_tlc(os.path.join(tlc.SPECS, DIR), "AssignExport", cfg, env={"EXPORT_FILE": f})
            if "No error has been found" not in r["out"] or not os.path.exists(f):
                raise tlc.MachineryError("matrix export failed:\n" + r["out"][-1500:])
            for line in open(f):
                d = json.loads(line)
                cases.append({"matrix": d["matrix"], "scale": 1, "expect": [d["optmin"], d["optmax"]]})
            shutil.rmtree(wd, ignore_errors=True)
        nexp = len(cases)
        ck.extra["tlc_exported_matrices"] = nexp
        cases += [drv.gen(rng, maxn=4 if i % 3 == 0 else 7) for i in range(500 if tier == "quick" else 6000)]
        from vlib import corpus
        rc = corpus.hungarian_cases(corpus.capture(["tests/solvors/test_hungarian.py"]))
        ck.extra["inputs_recorded_from_repository_tests"] = len(rc)
        cases += rc
    res = run_tasks("assign", "run_hungarian", cases, timeout=120)
    trs = []
    for r, c in zip(res, cases):
        if not isinstance(r, dict) or "events" not in r:
            what = "noreturn" if isinstance(r, dict) and r.get("__noreturn__") else "raise"
            r = {"matrix": c["matrix"], "input": c, "events": [{"e": what, "what": "WorkerCrash"}]}
        trs.append(r)
    vs = ck.validate(DIR, "AssignTrace", trs, "solve_hungarian, minimize and maximize", timeout=3000)
    ck.classify(trs, vs, nontrivial=lambda t, v: len(t["matrix"]) * len(t["matrix"][0]) >= 2)
    for t in trs:
        for e in t["events"]:
            k = e["e"] + (":min" if e.get("minimize") else ":max") if e["e"] == "ret" else e["e"]
            ck.actions[k] = ck.actions.get(k, 0) + 1
    if replay:
        return ck.finish()
    for c, t, v in zip(cases[:nexp], trs[:nexp], vs[:nexp]):        # exported expectation vs accepted answers (self-check)
        if v["ok"] and [e["obj"] for e in t["events"]] != c["expect"]:
            raise tlc.MachineryError("exported optimum differs from accepted answer")
    ck.sample({k: v for k, v in trs[0].items() if k != "input"})
    ck.sample({k: v for k, v in trs[-1].items() if k != "input"})
    ctl = []
    for t, v in zip(trs[nexp:], vs[nexp:]):
        e = t["events"][0]
        if v["ok"] and len(t["matrix"]) >= 3 and len(t["matrix"][0]) >= 3 and e["e"] == "ret":
            c = copy.deepcopy(t); c["events"][0]["obj"] += 1; ctl.append((c, "Objective.is_not_sum_of_chosen_entries"))
            a = list(e["assignment"]); i, j = [k for k, x in enumerate(a) if x != -1][:2]
            c = copy.deepcopy(t); c["events"][0]["assignment"][i] = a[j]; ctl.append((c, "Assignment.column_used_twice"))
            break
    for t, v in zip(trs[nexp:], vs[nexp:]):       # a valid but non-optimal assignment (swap two rows' columns, adjust objective)
        e = t["events"][0]
        M = t["matrix"]
        if v["ok"] and e["e"] == "ret" and len(M) >= 2 and len(M) <= len(M[0]):
            a = list(e["assignment"])
            b = list(a); b[0], b[1] = a[1], a[0]
            nobj = sum(M[i][b[i]] for i in range(len(M)))
            if nobj != e["obj"]:
                c = copy.deepcopy(t); c["events"][0].update(assignment=b, obj=nobj); ctl.append((c, "Objective.not_optimal"))
                break
    if len(ctl) < 3:
        raise tlc.MachineryError("negative controls could not be built")
    cv = ck.validate(DIR, "AssignTrace", [c for c, _ in ctl], "negative controls")
    for (c, exp), v in zip(ctl, cv):
        ck.control(f"corrupted trace rejected ({exp})", (not v["ok"]) and v["why"] == exp, str(v))
    # ---- step level: potentials and matching after every row insertion (hook events) against Hungarian.tla's invariants
    sc = [c for c in cases[nexp:] if "expect" not in c][: 400 if tier == "quick" else 5000] + cases[:nexp][:100]
    st = [x for r in run_tasks("assign", "run_hungarian_steps", sc, timeout=120) if isinstance(r, dict) for x in r.get("steps", [])]
    if len(st) < len(sc):
        raise tlc.MachineryError("hungarian stage traces could not be recorded (%d from %d matrices)" % (len(st), len(sc)))
    sv = ck.validate(DIR, "HungarianSteps", st, "potentials and matching after every row insertion", timeout=3000)
    for v in sv:
        for d in v.get("div", []):
            ck.divergences["stage:" + d] = ck.divergences.get("stage:" + d, 0) + 1
    ck.extra["stage_level"] = {"calls": len(st), "stages_replayed": sum(v.get("stages", 0) for v in sv),
                               "calls_with_divergence": sum(1 for v in sv if v.get("div"))}
    sctl = []
    for t, v in zip(st, sv):
        if v.get("div") or t["n"] < 3:
            continue
        k = t["n"] - 1
        fin = t["stages"][k]
        r0, r1 = fin["match"][0], fin["match"][1]
        # swapping the rows of the first two columns must leave a cell that is not tight (not so in matrices full of ties)
        if not (r0 > 0 and r1 > 0 and (fin["u"][r1 - 1] + fin["v"][0] != t["matrix"][r1 - 1][0] or fin["u"][r0 - 1] + fin["v"][1] != t["matrix"][r0 - 1][1])):
            continue
        c = copy.deepcopy(t); c["stages"][k]["u"][0] += 1; sctl.append((c, "Stage.|Final."))
        c = copy.deepcopy(t); c["stages"][k]["match"][0], c["stages"][k]["match"][1] = c["stages"][k]["match"][1], c["stages"][k]["match"][0]; sctl.append((c, "Stage.matched_cell_not_tight|Stage."))
        c = copy.deepcopy(t); c["stages"][1]["match"] = [0] * t["n"]; sctl.append((c, "Stage.not_a_matching"))
        break
    if not sctl:
        raise tlc.MachineryError("no stage trace suitable for step-level controls")
    for (c, exp), v in zip(sctl, ck.validate(DIR, "HungarianSteps", [c for c, _ in sctl], "stage-level negative controls")):
        ck.control(f"corrupted stage record flagged ({exp})", any(d.startswith(tuple(exp.split("|"))) for d in v.get("div", [])), str(v)[:300])
    ck.rule = ("every 2x2, 2x3, 3x2 (3x3 thorough) matrix over {-1,0,2} exported by TLC with its optimum; random r x c matrices up to 7x7 "
               "with ties, negative and quarter-unit entries, int and float inputs, minimize and maximize; non-trivial = >= 2 cells")
    ck.exhaustive = True
    ck.assumptions = ["entries are integers or multiples of 1/4; sizes up to 7x7 (optimum by exhaustive recursion)"]
    return ck.finish()
