from checks import satcommon


def run(tier, seed, replay=None):
    return satcommon.run("C02", tier, seed, replay)
