from checks import satcommon


def run(tier, seed, replay=None):
    return satcommon.run("C01", tier, seed, replay)
