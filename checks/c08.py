from checks import flowcommon


def run(tier, seed, replay=None):
    return flowcommon.run("C08", tier, seed, replay)
