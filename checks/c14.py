"""C14 — SCC, topological order, condensation (DESIGN §5 C14)."""
import copy
import json
import random

from vlib import tlc
from vlib.pool import run_tasks
from vlib.runner import Check
from drivers import scc as drv

PID, DIR = "C14", "Scc"


def run(tier, seed, replay=None):
    ck = Check(PID, tier, seed)
    rng = random.Random(seed * 7919 + 14)
    if replay:
        cases = [json.load(open(replay))["trace"]["input"]]
    else:
        ck.mc(DIR, "SccAlgs", "MC_tarjan3s.cfg")
        ck.mc(DIR, "SccAlgs", "MC_kahn3s.cfg")
        ck.mc(DIR, "SccAlgs", "NC_tarjan.cfg", expect_violation="EmittedAreSccs")
        if tier == "thorough":
            for cfg in ("MC_tarjan3.cfg", "MC_kahn3.cfg", "MC_tarjan4.cfg", "MC_kahn4.cfg"):
                ck.mc(DIR, "SccAlgs", cfg, timeout=14400)
        cases = [drv.gen(rng, nmax=4 if i % 4 == 0 else 8) for i in range(800 if tier == "quick" else 10000)]
    res = run_tasks("scc", "run_scc", cases, timeout=120)
    trs = []
    for r, c in zip(res, cases):
        if not isinstance(r, dict) or "events" not in r:
            what = "noreturn" if isinstance(r, dict) and r.get("__noreturn__") else "raise"
            r = {"n": c["n"], "m": c["m"], "edges": c["edges"], "input": c, "events": [{"e": what, "fn": "worker", "what": "WorkerCrash"}]}
        trs.append(r)
    vs = ck.validate(DIR, "SccTrace", trs, "scc / topological_sort / condense / _edges variants on the same digraph")
    ck.classify(trs, vs, nontrivial=lambda t, v: len(t["edges"]) >= 2)
    for t in trs:
        for e in t["events"]:
            k = e["fn"] + ":" + e.get("status", e["e"])
            ck.actions[k] = ck.actions.get(k, 0) + 1
    if replay:
        return ck.finish()
    ck.extra["graphs_with_outside_neighbours"] = sum(1 for t in trs if t["m"] > t["n"])
    ck.sample({k: v for k, v in trs[0].items() if k != "input"})
    ck.sample({k: v for k, v in trs[-1].items() if k != "input"})
    ctl = []
    for t, v in zip(trs, vs):
        e0 = t["events"][0]
        ci = {x: k for k, c in enumerate(e0.get("comps", [])) for x in c} if e0["e"] == "ret" else {}
        cross = any(a in ci and b in ci and ci[a] != ci[b] for a, b in t["edges"])      # reversing the list must break "sinks first"
        if v["ok"] and e0["e"] == "ret" and len(e0["comps"]) >= 3 and any(len(c) >= 2 for c in e0["comps"]) and t["m"] == t["n"] and cross:
            c = copy.deepcopy(t); c["events"][0]["comps"].reverse(); ctl.append((c, "Scc."))
            c = copy.deepcopy(t); big = max(c["events"][0]["comps"], key=len); x = big.pop(); c["events"][0]["comps"].append([x]); ctl.append((c, "Scc.component_is_not_a_mutual_reachability_class"))
            break
    for t, v in zip(trs, vs):
        e1 = t["events"][1]
        inner = e1["e"] == "ret" and any(a != b and a in e1.get("order", []) and b in e1.get("order", []) for a, b in t["edges"])   # an edge the reversed order breaks
        if v["ok"] and e1["e"] == "ret" and e1["status"] == "OPTIMAL" and len(e1["order"]) >= 3 and inner:
            c = copy.deepcopy(t); c["events"][1]["order"].reverse(); ctl.append((c, "Topo.not_a_topological_order"))
            break
    if len(ctl) < 3:
        raise tlc.MachineryError("no accepted traces suitable for negative controls")
    cv = ck.validate(DIR, "SccTrace", [c for c, _ in ctl], "negative controls")
    for (c, exp), v in zip(ctl, cv):
        ck.control(f"corrupted trace rejected ({exp} -> {v['why']})", (not v["ok"]) and exp in v["why"], str(v))
    # ---- step level: visit / finish / pop events of Tarjan's algorithm against SccAlgs' stack discipline and root test
    sc = cases[: 400 if tier == "quick" else 5000]
    st = [r for r in run_tasks("scc", "run_scc_steps", sc, timeout=120) if isinstance(r, dict) and "steps" in r]
    if not st:          # hooks absent (guard off / code restructured): the step level is lost, the return level above still decides C14
        ck.notes.append("no scc_visit / scc_finish / scc_pop events were recorded: Tarjan step level skipped")
        ck.rule = "see C14 quick rule; step level skipped"
        return ck.finish()
    sv = ck.validate(DIR, "TarjanSteps", st, "visit / finish / pop events of strongly_connected_components", timeout=3000)
    for v in sv:
        for d in v.get("div", []):
            ck.divergences["tarjan:" + d] = ck.divergences.get("tarjan:" + d, 0) + 1
    ck.extra["tarjan_step_level"] = {"calls": len(st), "events_replayed": sum(v.get("steps", 0) for v in sv),
                                     "calls_with_divergence": sum(1 for v in sv if v.get("div"))}
    sctl = []
    for t, v in zip(st, sv):
        pops = [i for i, e in enumerate(t["steps"]) if e["k"] == "pop" and len(e["comp"]) >= 2]
        fins = [i for i, e in enumerate(t["steps"]) if e["k"] == "finish"]
        if v.get("div") or not pops or len(fins) < 2 or not any(i + 1 < len(t["steps"]) and t["steps"][i + 1]["k"] == "pop" for i in fins):
            continue
        c = copy.deepcopy(t); c["steps"][pops[0]]["comp"] = c["steps"][pops[0]]["comp"][:-1]; sctl.append((c, "Pop.component_is_not"))
        roots = [i for i in fins if i + 1 < len(t["steps"]) and t["steps"][i + 1]["k"] == "pop"]     # a root's finish: low == index,
        c = copy.deepcopy(t); c["steps"][roots[0]]["low"] += 1; sctl.append((c, "Finish.lowlink_root_test"))  # so low + 1 must flip the test
        c = copy.deepcopy(t); del c["steps"][pops[0]]; sctl.append((c, "Pop.missing|Finish.stack_not_empty"))
        break
    if not sctl:
        raise tlc.MachineryError("no Tarjan trace suitable for step-level controls")
    for (c, exp), v in zip(sctl, ck.validate(DIR, "TarjanSteps", [c for c, _ in sctl], "step-level negative controls")):
        ck.control(f"corrupted Tarjan event flagged ({exp}*)", any(d.startswith(tuple(exp.split("|"))) for d in v.get("div", [])), str(v)[:300])
    ck.rule = ("random digraphs with 1-8 listed nodes (+0-2 outside neighbours), duplicate edges, self loops, 35% DAG-shaped, shuffled "
               "node and neighbour orders, int/str/tuple labels; non-trivial = >= 2 edges; distinct by hash of the input")
    ck.assumptions = ["the graph is the one induced by the listed nodes (neighbours outside the node list are not nodes) for all three functions"]
    return ck.finish()
