"""Shared flow for C08 (max_flow) and C09 (min-cost flow solvers)."""
import copy
import json
import random

from vlib import tlc
from vlib.pool import run_tasks
from vlib.runner import Check
from drivers import flow as drv

DIR = "Flow"
RUNNERS = {"maxflow": "run_maxflow", "mincost": "run_mincost", "assign": "run_assign"}


def _fix(res, cases, kind):
    out = []
    for r, c in zip(res, cases):
        if not isinstance(r, dict) or "events" not in r:
            what = "noreturn" if isinstance(r, dict) and r.get("__noreturn__") else "raise"
            fn = {"maxflow": "max_flow", "mincost": "min_cost_flow", "assign": "solve_assignment"}[kind]
            r = {"kind": kind, "n": c.get("n", 0), "arcs": c.get("arcs", []), "s": c.get("s", 0), "t": c.get("t", 0), "demand": c.get("demand", 0),
                 "supplies": c.get("supplies") or [0] * c.get("n", 0), "matrix": c.get("matrix", []), "input": c,
                 "events": [{"e": what, "fn": fn, "what": "WorkerCrash"}]}
        out.append(r)
    return out


def run(pid, tier, seed, replay=None):
    ck = Check(pid, tier, seed)
    rng = random.Random(seed * 7919 + (8 if pid == "C08" else 9))
    if replay:
        tr = json.load(open(replay))["trace"]
        kind = tr["kind"]
        trs = _fix(run_tasks("flow", RUNNERS[kind], [tr["input"]], timeout=120), [tr["input"]], kind)
        ck.classify(trs, ck.validate(DIR, "FlowTrace", trs, "replay"))
        return ck.finish()
    if pid == "C08":
        ck.mc(DIR, "FlowAlgs", "MC_ff3.cfg")
        ck.mc(DIR, "FlowAlgs", "MC_ff4.cfg")
        ck.mc(DIR, "FlowAlgs", "NC_ff.cfg", expect_violation="MaxAtEnd")
        ck.mc(DIR, "FlowAlgs", "NC_rev.cfg", expect_violation="NeverUsesReverseArc")
        nq = 600 if tier == "quick" else 8000
        cases = [drv.gen_maxflow(rng, nmax=5 if i % 4 == 0 else 10) for i in range(nq)] + [drv.unit_layered(rng) for _ in range(2 * nq)]
        trs = _fix(run_tasks("flow", "run_maxflow", cases, timeout=120), cases, "maxflow")
        bulk = [{"seed": rng.randint(0, 10 ** 9), "count": 6000 if tier == "quick" else 80000} for _ in range(14)]
        cov = {}
        for r in run_tasks("flow", "run_maxflow_bulk", bulk, timeout=900):
            if not isinstance(r, dict) or "kept" not in r:
                raise tlc.MachineryError("max_flow bulk worker failed: " + str(r)[:300])
            trs += r["kept"]
            for k, v in r["cov"].items():
                cov[k] = cov.get(k, 0) + v
        ck.extra["max_flow_coverage_directed_generation"] = cov
    else:
        ck.mc(DIR, "FlowAlgs", "MC_ssp3.cfg")
        ck.mc(DIR, "NetSimplex", "MC_ns_quick.cfg")
        if tier == "thorough":
            ck.mc(DIR, "FlowAlgs", "MC_cert.cfg", timeout=14400)
            ck.mc(DIR, "NetSimplex", "MC_ns3.cfg", timeout=14400)
            ck.mc(DIR, "NetSimplex", "NC_ns.cfg", expect_violation="Bounds", timeout=14400)
        nq = 300 if tier == "quick" else 5000
        c1 = [drv.gen_mincost(rng, nmax=4 if i % 3 == 0 else 8) for i in range(nq)]
        c1 += [drv.gen_mincost_longroute(rng) for _ in range(nq // 2)]
        c1 += [drv.gen_mincost_huge(rng) for _ in range(nq // 3)]
        c1 += [drv.gen_mincost_cheapfirst(rng) for _ in range(nq // 3)]
        c1 += [drv.gen_mincost_negative_tail(rng) for _ in range(nq // 3)]
        c2 = [drv.gen_mincost(rng, general=True) for _ in range(nq)]
        c2 += [drv.gen_mincost_huge(rng, general=True) for _ in range(nq // 2)]
        c2 += [drv.gen_mincost_cheapfirst(rng, general=True) for _ in range(nq // 2)]
        c3 = [drv.gen_assign(rng) for _ in range(nq // 2)]
        trs = (_fix(run_tasks("flow", "run_mincost", c1 + c2, timeout=120), c1 + c2, "mincost")
               + _fix(run_tasks("flow", "run_assign", c3, timeout=120), c3, "assign"))
        # coverage-directed bulk: many tight network-simplex instances, only executions taking rare actions are validated
        bulk = [{"seed": rng.randint(0, 10 ** 9), "count": 3000 if tier == "quick" else 40000} for _ in range(14)]
        cov = {}
        bulk_steps = []
        for r in run_tasks("flow", "run_ns_bulk", bulk, timeout=600):
            if not isinstance(r, dict) or "kept" not in r:
                raise tlc.MachineryError("network-simplex bulk worker failed: " + str(r)[:300])
            trs += r["kept"]
            bulk_steps += r.get("steps", [])
            for k, v in r["cov"].items():
                cov[k] = cov.get(k, 0) + v
        ck.extra["network_simplex_coverage_directed_generation"] = cov
        # step level: whole pivot sequences (snapshot hooks) replayed as NetSimplex!Pivot actions with the design spec's
        # invariants evaluated after every pivot (diagnostic divergences; the return level above decides C09)
        sc = [drv.gen_ns_tight(rng) for _ in range(400 if tier == "quick" else 6000)]
        sc += [{"n": c["n"], "arcs": c["arcs"], "supplies": c["supplies"]} for c in c2 if c.get("supplies") and
               len({(a[0], a[1]) for a in c["arcs"]}) == len(c["arcs"])][:200 if tier == "quick" else 2000]
        st = [r for r in run_tasks("flow", "run_ns_steps", sc, timeout=120) if isinstance(r, dict) and "steps" in r]
        if len(st) < len(sc) // 2:
            raise tlc.MachineryError("network-simplex step traces could not be recorded (%d of %d)" % (len(st), len(sc)))
        st += bulk_steps         # the executions the coverage-directed generator kept (rare pivots, long sequences)
        sv = ck.validate(DIR, "NsTrace", st, "network_simplex pivot sequences (snapshot hooks)", timeout=14400)
        for t, v in zip(st, sv):
            for d in v.get("div", []):
                ck.divergences["ns_step:" + d] = ck.divergences.get("ns_step:" + d, 0) + 1
        ck.extra["network_simplex_step_level"] = {"executions": len(st), "pivots_replayed": sum(v.get("pivots", 0) for v in sv),
                                                  "executions_with_divergence": sum(1 for v in sv if v.get("div"))}
        # binding demonstration for the step level: corrupt one logged field of a pivot record
        import copy as _copy
        fired = {}
        ctl2 = []
        for t, v in zip(st, sv):
            if v.get("div") or len(t["steps"]) < 3:
                continue
            k = len(t["steps"]) - 1
            c = _copy.deepcopy(t); c["steps"][k]["flow"][c["steps"][k]["entering"] - 1] += 1; ctl2.append((c, "Flow."))
            c = _copy.deepcopy(t); c["steps"][k]["pi"][0] += 1; ctl2.append((c, "Duals."))
            c = _copy.deepcopy(t); c["steps"][k]["tree"] = c["steps"][k - 1]["tree"][:-1] + [c["steps"][k - 1]["tree"][-1]] if False else c["steps"][k]["tree"][1:] + [c["steps"][k]["tree"][0]]
            c["steps"][k]["tree"] = c["steps"][k]["tree"][:-1]; ctl2.append((c, "Basis."))
            c = _copy.deepcopy(t); c["steps"][k]["delta"] += 1; ctl2.append((c, "Pivot.cost_change"))
            if len(ctl2) >= 8:
                break
        if ctl2:
            for (c, exp), v in zip(ctl2, ck.validate(DIR, "NsTrace", [c for c, _ in ctl2], "step-level negative controls")):
                fired[exp] = fired.get(exp, 0) + any(d.startswith(exp) for d in v.get("div", []))
            for exp, k in fired.items():
                ck.control(f"corrupted pivot record flagged by the NetSimplex guard {exp}* ({k} variants)", k > 0, str(fired))
    vs = ck.validate(DIR, "FlowTrace", trs, "recorded results", timeout=14400)
    ck.classify(trs, vs, nontrivial=lambda t, v: len(t.get("arcs", [])) >= 2 or len(t.get("matrix", [])) >= 2)
    for t in trs:
        for e in t["events"]:
            k = e["fn"] + ":" + e.get("status", e["e"])
            ck.actions[k] = ck.actions.get(k, 0) + 1
    ck.sample({k: v for k, v in trs[0].items() if k != "input"})
    ck.sample({k: v for k, v in trs[-1].items() if k != "input"})
    ctl = []
    for t, v in zip(trs, vs):
        e = t["events"][0] if t["events"] else {}
        if not v["ok"] or e.get("e") != "ret":
            continue
        if pid == "C08" and e["value"] >= 2 and len(e["flows"]) >= 3 and not ctl:
            c = copy.deepcopy(t); c["events"][0]["value"] += 1; ctl.append((c, "Flow.objective"))
            c = copy.deepcopy(t); c["events"][0]["flows"][0][2] += 1; ctl.append((c, "Flow."))
            # a feasible but non-maximum flow: drop everything (zero flow) on an instance with positive max flow
            c = copy.deepcopy(t); c["events"][0].update(flows=[], value=0); ctl.append((c, "MaxFlow.augmenting_path_remains"))
        if pid == "C09" and e.get("fn") == "min_cost_flow" and e.get("status") == "OPTIMAL" and len(e["flows"]) >= 2 and not ctl:
            c = copy.deepcopy(t); c["events"][0]["cost"] += 1; ctl.append((c, "Cost.objective_is_not_cost_of_the_flow"))
            c = copy.deepcopy(t); c["events"][0].update(status="INFEASIBLE", flows=[]); ctl.append((c, "Infeasible.but_feasible_flow_exists"))
    if not ctl:
        raise tlc.MachineryError("no accepted trace suitable for negative controls")
    cv = ck.validate(DIR, "FlowTrace", [c for c, _ in ctl], "negative controls")
    for (c, exp), v in zip(ctl, cv):
        ck.control(f"corrupted trace rejected ({exp} -> {v['why']})", (not v["ok"]) and exp in v["why"], str(v))
    if pid == "C08":
        ck.rule = ("random capacitated digraphs with 2-10 nodes (arbitrary labels, parallel and anti-parallel arcs, arcs into the source / out "
                   "of the sink, zero capacities, unreachable parts) and unit-capacity layered graphs with skip arcs (the shape on which "
                   "shortest augmenting paths must cancel flow through arcs that have no forward capacity); non-trivial = >= 2 arcs")
        ck.assumptions = ["source != sink"]
    else:
        ck.rule = ("random networks with 2-8 nodes, <= 14 arcs, zero-capacity arcs, parallel / anti-parallel arcs with equal and different "
                   "costs, negative costs on forward arcs only (no negative cycles); single source/sink with demand 0-6 (both solvers) "
                   "and general balanced supply vectors (network_simplex); long cheap routes with costlier shortcuts; assignment matrices up to 5x5; "
                   "step level: pivot sequences of network_simplex replayed against NetSimplex")
        ck.assumptions = ["no negative-cost cycles in the input",
                          "flows are compared per node pair (both solvers report the combined flow of parallel arcs)"]
    return ck.finish()
