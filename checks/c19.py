"""C19 — search heuristics (DESIGN §5 C19)."""
import copy
import json
import random

from vlib import tlc
from vlib.pool import run_tasks
from vlib.runner import Check
from drivers import search as drv

PID, DIR = "C19", "Search"


def run(tier, seed, replay=None):
    ck = Check(PID, tier, seed)
    rng = random.Random(seed * 7919 + 19)
    if replay:
        cases = [json.load(open(replay))["trace"]["input"]]
    else:
        ck.mc(DIR, "Search", "MC_search.cfg")
        ck.mc(DIR, "Search", "NC_search_reject.cfg", expect_violation="BestOfAllSeen")
        ck.mc(DIR, "Search", "NC_search_sign.cfg", expect_violation="ReturnFaithful")
        if tier == "thorough":
            ck.mc(DIR, "Search", "MC_search4.cfg", timeout=14400)
        per = 60 if tier == "quick" else 600
        cases = [drv.gen(rng, s) for s in drv.DISCRETE + drv.CONT1 + drv.CONT2 for _ in range(per)]
        # the two population solvers once more (small populations and short runs are where set-up bookkeeping shows)
        cases += [drv.gen(rng, s) for s in ("differential_evolution", "particle_swarm") for _ in range(per)]
        # the solvers whose bookkeeping of "best so far" has the most branches get a double / triple share (their runs are cheap)
        cases += [drv.gen(rng, s) for s in ("nelder_mead", "nelder_mead", "nelder_mead", "anneal", "tabu_search", "evolve", "lns", "alns") for _ in range(per)]
    res = run_tasks("search", "run_search", cases, timeout=120)
    trs = []
    for r, c in zip(res, cases):
        if not isinstance(r, dict) or "runs" not in r:
            what = "noreturn" if isinstance(r, dict) and r.get("__noreturn__") else "raise"
            bad = {"e": what, "what": "WorkerCrash"}
            r = {"solver": c["solver"], "group": 1, "minimize": c["minimize"], "bounded": False, "lo6": [], "hi6": [], "objtol": 0, "runs": [bad, bad, bad], "input": c}
        trs.append(r)
    vs = ck.validate(DIR, "SearchTrace", trs, "three runs per configuration (run, repeat, mirror)", timeout=3000, chunk=20)
    ck.classify(trs, vs, nontrivial=lambda t, v: t["runs"][0].get("e") == "ret" and len(t["runs"][0]["evals"]) >= 2)
    for t in trs:
        k = t["solver"] + ":" + t["runs"][0].get("status", t["runs"][0]["e"])
        ck.actions[k] = ck.actions.get(k, 0) + 1
    ck.extra["objective_calls_observed"] = sum(len(r.get("evals", [])) for t in trs for r in t["runs"])
    if replay:
        return ck.finish()
    t0 = trs[0]
    ck.sample({"solver": t0["solver"], "minimize": t0["minimize"], "run1": {k: (v[:8] if k == "evals" else v) for k, v in t0["runs"][0].items()}})
    ctl = []
    for t, v in zip(trs, vs):
        r0 = t["runs"][0]
        if v["ok"] and t["group"] == 1 and r0["e"] == "ret" and len(r0["evals"]) >= 4 and len({e[1] for e in r0["evals"]}) >= 2:
            c = copy.deepcopy(t); c["runs"][0]["nevals"] += 1; ctl.append((c, ":Return.evaluations_is_not_number_of_objective_calls"))
            c = copy.deepcopy(t); c["runs"][0]["obj"] += 1; ctl.append((c, ":Return.objective_is_not_f_of_returned_point"))
            worst = max(e[1] for e in r0["evals"]) if t["minimize"] else min(e[1] for e in r0["evals"])
            c = copy.deepcopy(t); c["runs"][0]["obj"] = worst; c["runs"][0]["fsol"] = worst; ctl.append((c, ":Return.worse_than_an_evaluated_candidate"))
            # make the worst evaluation of the repeated run still worse: no other clause can notice that, only the comparison of the two runs
            ev1 = t["runs"][1]["evals"]
            j = max(range(len(ev1)), key=lambda k: ev1[k][1] if t["minimize"] else -ev1[k][1])
            c = copy.deepcopy(t); c["runs"][1]["evals"][j][1] += 1 if t["minimize"] else -1; ctl.append((c, ":Repeat.same_seed_different_run"))
            c = copy.deepcopy(t); c["runs"][2]["evals"][-1][0] += "x"; ctl.append((c, ":Mirror.not_the_mirror_image"))
            break
    if len(ctl) < 5:
        raise tlc.MachineryError("negative controls could not be built")
    cv = ck.validate(DIR, "SearchTrace", [c for c, _ in ctl], "negative controls")
    for (c, exp), v in zip(ctl, cv):
        ck.control(f"corrupted trace rejected ({exp})", (not v["ok"]) and v["why"].endswith(exp), str(v))
    ck.rule = ("for each of the 12 solvers: random configurations (seeds, max_iter 1..60, acceptance rules, cooling, population sizes, "
               "strategies, bounds, start points) on integer-valued objectives with plateaus, ties and discontinuities (discrete: capped "
               "|a.x - t| plus a diversity step; continuous: sum of floor(|x - c| k)); quadratic with gradient for bfgs/lbfgs; each "
               "configuration run three times (run, repeat, mirror); non-trivial = >= 2 objective calls; distinct by hash")
    ck.assumptions = ["objectives are deterministic; early stops through on_progress are exercised for the eight first-group solvers that take the callback; custom callbacks draw from their own seeded generator",
                      "bfgs / lbfgs / powell: only 'objective is f at the returned point' and reproducibility are claimed (as the statement says)"]
    return ck.finish()
