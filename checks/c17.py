"""C17 — cutting-stock plans of solve_cg / solve_bp (DESIGN §5 C17)."""
import copy
import json
import random

from vlib import tlc
from vlib.pool import run_tasks
from vlib.runner import Check
from drivers import cutstock as drv

PID, DIR = "C17", "CutStock"


def run(tier, seed, replay=None):
    ck = Check(PID, tier, seed)
    rng = random.Random(seed * 7919 + 17)
    if replay:
        cases = [json.load(open(replay))["trace"]["input"]]
        if "mut_index" in cases[0]:          # a call history: re-run it as such
            trs = [r for r in run_tasks("cutstock", "run_cut_history", cases, timeout=120) if isinstance(r, dict) and "events" in r]
            vs = ck.validate(DIR, "CutTrace", trs, "replay (history)")
            ck.classify(trs, vs)
            return ck.finish()
    else:
        ck.mc(DIR, "CutTwin", "MC_cut.cfg")
        ck.mc(DIR, "CutTwin", "MC_cut2.cfg")
        ck.mc("Bnb", "Bnb", "MC_bnb1.cfg")           # the branch-and-bound skeleton (Cover invariant) shared with C04
        # column generation as a transition system (any optimal dual vertex, any improving pattern): the bound OPTIMAL rests on
        ck.mc(DIR, "ColGen", "MC_cg_7_SZ234_2.cfg")
        ck.mc(DIR, "ColGen", "NC_colgen.cfg", expect_violation="BoundValid")
        if tier == "thorough":
            ck.mc(DIR, "ColGen", "MC_cg_9_SZ234_2.cfg", timeout=14400)
            ck.mc(DIR, "ColGen", "MC_cg_6_SZ123_2.cfg", timeout=14400)
            ck.mc(DIR, "ColGen", "MC_cg_7_SZ23_3.cfg", timeout=14400)
            ck.mc(DIR, "ColGen", "MC_cg_10_SZ234_3.cfg", timeout=14400)
        n = 400 if tier == "quick" else 6000
        cases = [drv.gen_stock(rng) for _ in range(n)] + [drv.gen_custom(rng) for _ in range(n // 2)] + drv.degenerate_reentry_corpus(rng)
    res = run_tasks("cutstock", "run_cut", cases, timeout=120)
    # call histories on one list object (edited in place between two solves)
    hist = []
    if not replay:
        for c in cases:
            if c.get("kind") == "stock" and not c.get("floats") and len(hist) < (120 if tier == "quick" else 1500):
                k = rng.randrange(len(c["sizes"]))
                others = [z for i, z in enumerate(c["sizes"]) if i != k and z < c["W"]]
                # the new size often complements another piece to a full roll, so that patterns the first solve could not use matter
                ms = c["W"] - rng.choice(others) if others and rng.random() < 0.6 else rng.randint(1, c["W"])
                h = dict(c, mut_index=k, mut_size=ms, demands=[max(1, d) for d in c["demands"]])
                hist.append(h)
    hres = run_tasks("cutstock", "run_cut_history", hist, timeout=120) if hist else []
    trs = []
    for r, c in zip(res, cases):
        if not isinstance(r, dict) or "events" not in r:
            what = "noreturn" if isinstance(r, dict) and r.get("__noreturn__") else "raise"
            r = {"kind": c["kind"], "W": c.get("W", 0), "sizes": c.get("sizes", []), "demands": c["demands"], "pool": [list(x) for x in c.get("pool", [])],
                 "input": c, "events": [{"e": what, "solver": "worker", "what": "WorkerCrash"}]}
        trs.append(r)
    for r in hres:
        if isinstance(r, dict) and "events" in r:
            trs.append(r)
    ck.extra["call_histories_edit_in_place"] = sum(1 for r in hres if isinstance(r, dict) and "events" in r)
    vs = ck.validate(DIR, "CutTrace", trs, "solve_cg and solve_bp on the same instance", timeout=14400)
    ck.classify(trs, vs, nontrivial=lambda t, v: sum(t["demands"]) >= 2)
    for t in trs:
        for e in t["events"]:
            k = e["solver"] + ":" + e.get("status", e["e"])
            ck.actions[k] = ck.actions.get(k, 0) + 1
    if replay:
        return ck.finish()
    ck.sample({k: v for k, v in trs[0].items() if k != "input"})
    ck.sample({k: v for k, v in trs[-1].items() if k != "input"})
    ctl = []
    for t, v in zip(trs, vs):
        e = t["events"][0]
        if v["ok"] and t["kind"] == "stock" and e.get("status") == "OPTIMAL" and e["plan"] and sum(t["demands"]) >= 3:
            c = copy.deepcopy(t); c["events"][0]["obj"] += 1; ctl.append((c, "cg:Objective.is_not_number_of_rolls"))
            c = copy.deepcopy(t); c["events"][0]["plan"][0]["k"] += 1; c["events"][0]["obj"] += 1; ctl.append((c, "cg:Optimal.but_fewer_rolls_suffice"))
            if e["obj"] >= 2 or e["plan"][0]["k"] >= 1:
                c = copy.deepcopy(t); c["events"][0]["plan"] = []; c["events"][0]["obj"] = 0; ctl.append((c, "cg:Plan.demand_not_met"))
            break
    if len(ctl) < 3:
        raise tlc.MachineryError("negative controls could not be built")
    cv = ck.validate(DIR, "CutTrace", [c for c, _ in ctl], "negative controls")
    for (c, exp), v in zip(ctl, cv):
        ck.control(f"corrupted trace rejected ({exp})", (not v["ok"]) and v["why"] == exp, str(v))
    # ---- step level: every master LP and every pricing call of solve_cg (wrapped module-level names) as a step of column generation
    sc = [c for c in cases if c.get("kind") == "stock" and not c.get("floats") and len(c["sizes"]) <= 3
          and __import__("math").prod(c["W"] // z + 1 for z in c["sizes"]) <= 1500][: 250 if tier == "quick" else 3000]
    st = [r for r in run_tasks("cutstock", "run_cg_steps", sc, timeout=120) if isinstance(r, dict) and "steps" in r]
    if len(st) < len(sc) // 2:
        raise tlc.MachineryError("column-generation step traces could not be recorded (%d of %d)" % (len(st), len(sc)))
    # custom-pricing mode: the same step spec with the explicit column set in the place of the roll
    cc = [c for c in cases if c.get("kind") == "custom" and all(sum(col) > 0 for col in c["pool"]) and len(c["pool"]) <= 14][: 150 if tier == "quick" else 1500]
    stc = [r for r in run_tasks("cutstock", "run_cg_steps_custom", cc, timeout=120) if isinstance(r, dict) and "steps" in r]
    ck.extra["column_generation_step_level_custom_calls"] = len(stc)
    st = st + stc
    sv = ck.validate(DIR, "CgSteps", st, "master LP / pricing calls of solve_cg", timeout=14400)
    for v in sv:
        for d in v.get("div", []):
            ck.divergences["cg_step:" + d] = ck.divergences.get("cg_step:" + d, 0) + 1
    ck.extra["column_generation_step_level"] = {"calls": len(st), "steps_replayed": sum(v.get("steps", 0) for v in sv),
                                                "calls_with_divergence": sum(1 for v in sv if v.get("div"))}
    sctl = []
    for t, v in zip(st, sv):
        ms = [i for i, e in enumerate(t["steps"]) if e["k"] == "master" and e["finite"] and sum(e["x6"]) > 0]
        ps = [i for i, e in enumerate(t["steps"]) if e["k"] == "price"]
        if v.get("div") or not ms or not ps:
            continue
        c = copy.deepcopy(t); c["steps"][ms[0]]["duals6"] = [d + 300000 for d in c["steps"][ms[0]]["duals6"]]; sctl.append((c, "Master.du"))
        c = copy.deepcopy(t); c["steps"][ms[0]]["lp6"] += 1000000; sctl.append((c, "Master."))
        c = copy.deepcopy(t); c["steps"][ps[0]]["pattern"] = [0] * len(t["sizes"]); c["steps"][ps[0]]["value6"] = 0; sctl.append((c, "Pricing.better_pattern_exists"))
        break
    if not sctl:
        raise tlc.MachineryError("no column-generation trace suitable for step-level controls")
    for (c, exp), v in zip(sctl, ck.validate(DIR, "CgSteps", [c for c, _ in sctl], "step-level negative controls")):
        ck.control(f"corrupted column-generation record flagged ({exp}*)", any(d.startswith(exp) for d in v.get("div", [])), str(v)[:300])
    ck.rule = ("cutting-stock instances with 1-3 piece types, roll width 3-12, demands 0-4 (duplicate sizes, zero demands), and covering "
               "instances with a custom pricing function over an explicit pool of <= 8 columns; both solvers per instance; non-trivial = total "
               "demand >= 2; distinct by hash")
    ck.assumptions = ["the true minimum is computed by breadth-first search over residual demand vectors (twin-checked by enumeration)"]
    return ck.finish()
