"""C18 — job-shop schedules and VRPTW routes (DESIGN §5 C18)."""
import copy
import json
import random

from vlib import tlc
from vlib.pool import run_tasks
from vlib.runner import Check
from drivers import c18 as drv

PID, DIR = "C18", "C18"


def _fix(res, cases, kind):
    out = []
    for r, c in zip(res, cases):
        if not isinstance(r, dict) or "events" not in r:
            what = "noreturn" if isinstance(r, dict) and r.get("__noreturn__") else "raise"
            r = {"kind": kind, "jobs": c.get("jobs", []), "cust": [], "dist": [], "cap": [], "input": c, "events": [{"e": what, "what": "WorkerCrash"}]}
        out.append(r)
    return out


def run(tier, seed, replay=None):
    ck = Check(PID, tier, seed)
    rng = random.Random(seed * 7919 + 18)
    if replay:
        tr = json.load(open(replay))["trace"]
        fn = "run_jobshop" if tr["kind"] == "jobshop" else "run_vrp"
        trs = _fix(run_tasks("c18", fn, [tr["input"]], timeout=120), [tr["input"]], tr["kind"])
        ck.classify(trs, ck.validate(DIR, "C18Trace", trs, "replay"))
        return ck.finish()
    ck.mc(DIR, "JobShop", "MC_js.cfg")
    ck.mc(DIR, "JobShop", "NC_js.cfg", expect_violation="Valid")
    ck.mc(DIR, "Vrp", "MC_vrp.cfg")
    ck.mc(DIR, "Vrp", "NC_vrp_route.cfg", expect_violation="I1")
    ck.mc(DIR, "Vrp", "NC_vrp_sync.cfg", expect_violation="I1")
    if tier == "thorough":
        ck.mc(DIR, "JobShop", "MC_js3.cfg", timeout=14400)
        ck.mc(DIR, "Vrp", "MC_vrp4.cfg", timeout=14400)
    nj = 300 if tier == "quick" else 5000
    nv = 120 if tier == "quick" else 2000
    jc = [drv.gen_jobshop(rng) for _ in range(nj)]
    vc = [drv.gen_vrp(rng, "solve") for _ in range(nv)] + [drv.gen_vrp(rng, "sequence") for _ in range(nv)]
    trs = _fix(run_tasks("c18", "run_jobshop", jc, timeout=120), jc, "jobshop") + _fix(run_tasks("c18", "run_vrp", vc, timeout=120), vc, "vrp")
    vs = ck.validate(DIR, "C18Trace", trs, "job-shop results; VRP operator applications and solve_vrptw results", timeout=3000, chunk=30)
    ck.classify(trs, vs, nontrivial=lambda t, v: len(t["events"]) >= 2)
    for t in trs:
        for e in t["events"]:
            k = (t["kind"] + ":" + (e.get("op") or e.get("status") or e["e"]))
            ck.actions[k] = ck.actions.get(k, 0) + 1
    ck.extra["vrp_operator_applications_checked"] = sum(1 for t in trs for e in t["events"] if e["e"] == "op")
    ck.sample({k: v for k, v in trs[0].items() if k != "input"})
    big = trs[nj]
    ck.sample({"kind": "vrp", "cust": big["cust"], "events": big["events"][:3] + big["events"][-1:]})
    ctl = []
    for t, v in zip(trs, vs):
        if v["ok"] and t["kind"] == "jobshop" and len(t["events"][0].get("schedule", [])) >= 3 and not any(x[1].startswith("Schedule") for x in ctl):
            c = copy.deepcopy(t); c["events"][0]["schedule"][1][3] -= 1; ctl.append((c, "Schedule."))      # end - start is no longer the duration (a shifted operation could land in idle time)
            c = copy.deepcopy(t); c["events"][0]["obj"] += 1; ctl.append((c, "Schedule.objective_is_not_latest_end"))
        if v["ok"] and t["kind"] == "vrp" and t["events"] and t["events"][-1]["e"] == "result" and not any(x[1].startswith("Result") for x in ctl):
            st = t["events"][-1]["state"]
            if any(st["routes"]) :
                c = copy.deepcopy(t); r = next(r for r in c["events"][-1]["state"]["routes"] if r); c["events"][-1]["state"]["unassigned"].append(r[0]); ctl.append((c, "Result.I1_customer_both_unassigned_and_on_route"))
                c = copy.deepcopy(t); c["events"][-1]["obj"] += 1; ctl.append((c, "Result.objective_is_not_the_documented_weighted_sum"))
                c = copy.deepcopy(t); a = next(a for a in c["events"][-1]["state"]["arrival"] if a); a[-1] += 1; ctl.append((c, "Result.I4_stale_or_wrong_arrival_time"))
    if len(ctl) < 5:
        raise tlc.MachineryError("negative controls could not be built")
    cv = ck.validate(DIR, "C18Trace", [c for c, _ in ctl], "negative controls")
    for (c, exp), v in zip(ctl, cv):
        ck.control(f"corrupted trace rejected ({exp} -> {v['why']})", (not v["ok"]) and v["why"].startswith(exp), str(v))
    ck.rule = ("job lists with 1-4 jobs, 1-4 operations, zero durations, repeated machines; all five dispatch rules with and without local "
               "search; VRP instances with 2-7 collinear customers (integer coordinates, windows, demands, service times, up to two "
               "multi-vehicle customers), 2-3 vehicles: every operator application inside real solve_vrptw runs plus random operator "
               "sequences; non-trivial = >= 2 events; distinct by hash")
    ck.assumptions = ["VRP customers lie on a line with integer data so that travel and arrival times are exact integers",
                      "an operator applied to an already broken state is not blamed (the step that broke it is)"]
    return ck.finish()
