"""C20 — UnionFind and FenwickTree behave like their reference models (DESIGN §5 C20)."""
import copy
import json
import os
import random

from vlib import tlc
from vlib.pool import run_tasks
from vlib.runner import Check
from drivers import c20 as drv

PID = "C20"
DIR = "C20"


def _states(cfg):
    r = tlc.run_tlc(os.path.join(tlc.SPECS, DIR), "UnionFind", cfg, workers=1)
    if "No error has been found" not in r["out"]:
        raise tlc.MachineryError("state dump failed:\n" + r["out"][-2000:])
    return tlc.parse_json_lines(r["out"]), r


def run(tier, seed, replay=None):
    ck = Check(PID, tier, seed)
    rng = random.Random(seed * 7919 + 20)
    if replay:
        with open(replay) as fh:
            rp = json.load(fh)
        inp = rp["trace"]["input"]
        if rp["trace"]["kind"] == "uf_hist" and "many" in inp:
            trs = [run_tasks("c20", "run_uf_many", [inp["many"]])[0]["traces"][inp["index"]]]
        elif rp["trace"]["kind"] == "uf_hist":
            trs = run_tasks("c20", "run_uf_hist", [inp])
        elif rp["trace"]["kind"] == "fw_hist":
            trs = run_tasks("c20", "run_fw_hist", [inp])
        else:
            trs = [t for t in run_tasks("c20", "run_uf_step", [inp["state"]])[0] if t["input"] == inp]
        vs = ck.validate(DIR, "C20Trace", trs, "replay")
        ck.classify(trs, vs)
        return ck.finish()

    # ---- design level: complete state graphs + negative controls
    for cfg in (["MC_UF3.cfg", "MC_UF4.cfg", "MC_UF5.cfg"] + (["MC_UF6.cfg"] if tier == "thorough" else [])):
        ck.mc(DIR, "UnionFind", cfg)
    for cfg in (["MC_FW4.cfg", "MC_FW6.cfg"] + (["MC_FW7.cfg"] if tier == "thorough" else [])):
        ck.mc(DIR, "Fenwick", cfg)
    ck.mc(DIR, "UnionFind", "NC_UF_union_ret.cfg", expect_violation="StepOK")
    ck.mc(DIR, "UnionFind", "NC_UF_no_count.cfg", expect_violation="CountOK")
    ck.mc(DIR, "Fenwick", "NC_FW_update.cfg", expect_violation="Rep")

    # ---- spec -> code: every transition out of every reachable implementation state, on the real class
    states, r = _states("MC_UF4_dump.cfg" if tier == "quick" else "MC_UF5_dump.cfg")
    ck.states += r["distinct"]
    ck.transitions += r["states"]
    groups = run_tasks("c20", "run_uf_step", states, timeout=120)
    steps = []
    for st, g in zip(states, groups):
        if not isinstance(g, list):
            g = [{"kind": "uf_step", "n": st["n"], "input": {"state": st}, "events": [{"op": "raise", "what": "NoReturn" if g.get("__noreturn__") else "WorkerCrash"}]}]
        steps.extend(g)
    vs = ck.validate(DIR, "C20Trace", steps, "every transition of the complete UnionFind state graph replayed on the real class")
    ck.classify(steps, vs)
    ck.extra["uf_reachable_impl_states_replayed"] = len(states)
    ck.extra["uf_transitions_replayed"] = len(steps)

    # ---- code -> spec: random call histories
    nh = 300 if tier == "quick" else 4000
    ucases = [drv.gen_uf_hist(rng) for _ in range(nh)]
    fcases = [drv.gen_fw_hist(rng) for _ in range(nh)]
    utr = _fix(run_tasks("c20", "run_uf_hist", ucases, timeout=120), ucases, "uf_hist")
    ftr = _fix(run_tasks("c20", "run_fw_hist", fcases, timeout=120), fcases, "fw_hist")
    many = [drv.gen_uf_many(rng) for _ in range(nh // 3)]
    for r in run_tasks("c20", "run_uf_many", many, timeout=120):
        if not isinstance(r, dict) or "traces" not in r:
            raise tlc.MachineryError("UnionFind multi-object worker failed: " + str(r)[:300])
        utr += r["traces"]
    allt = utr + ftr
    vs = ck.validate(DIR, "C20Trace", allt, "random call histories (n<=64 UnionFind, n<=40 FenwickTree)")
    ck.classify(allt, vs, nontrivial=lambda t, v: len(t["events"]) >= 3)
    for t in allt:
        for e in t["events"]:
            k = t["kind"] + "." + e["op"]
            ck.actions[k] = ck.actions.get(k, 0) + 1
    for t in steps:
        k = "uf_step." + t["events"][0]["op"]
        ck.actions[k] = ck.actions.get(k, 0) + 1
    ck.sample({"kind": "uf_hist", "n": utr[0]["n"], "events": utr[0]["events"][:12]})
    ck.sample({"kind": "fw_hist", "init": ftr[0]["init"], "events": ftr[0]["events"][:12]})
    ck.sample(steps[len(steps) // 2])

    # ---- binding demonstration: corrupt one field of accepted traces, they must be rejected by name
    good = [t for t, v in zip(allt, vs) if v["ok"]]
    ctl = []
    for t in good:
        for i, e in enumerate(t["events"]):
            if e["op"] in ("union", "connected") and len(ctl) < 1:
                c = copy.deepcopy(t); c["events"][i]["ret"] = not e["ret"]; ctl.append((c, e["op"] + ".ret"))
                break
    for t in good:
        for i, e in enumerate(t["events"]):
            if e["op"] == "prefix" and len(ctl) < 2:
                c = copy.deepcopy(t); c["events"][i]["ret"] += 1; ctl.append((c, "prefix.ret"))
                break
    for t in good:          # delete one event: a dropped union must surface later
        us = [i for i, e in enumerate(t["events"]) if e["op"] == "union" and e["ret"]]
        if t["kind"] == "uf_hist" and us and any(e["op"] == "count" for e in t["events"][us[0]:]) and len(ctl) < 3:
            c = copy.deepcopy(t); del c["events"][us[0]]; ctl.append((c, "*"))
            break
    cv = ck.validate(DIR, "C20Trace", [c for c, _ in ctl], "negative controls")
    for (c, exp), v in zip(ctl, cv):
        ck.control(f"corrupted trace rejected ({exp} -> {v['why']})", (not v["ok"]) and (exp == "*" or v["why"] == exp), str(v))
    if len(ctl) < 3:
        raise tlc.MachineryError("could not build negative controls")

    ck.rule = ("MC: complete reachable state graph of the implementation-level union-find for each N (all call "
               "histories of any length), Fenwick over all arrays in -2..2; replay: every (reachable state, call) "
               "pair on the real class; histories: random, seeded; non-trivial = history with >= 3 calls; distinct by "
               "hash of the generated case")
    ck.exhaustive = True
    ck.assumptions = ["indices in range", "Fenwick values are multiples of 1/4 below 2^28 (exact in binary floating point)"]
    return ck.finish()


def _fix(results, cases, kind):
    out = []
    for r, c in zip(results, cases):
        if not isinstance(r, dict) or "events" not in r:
            what = "NoReturn" if isinstance(r, dict) and r.get("__noreturn__") else "WorkerCrash"
            r = {"kind": kind, "n": c.get("n", 0), "init": c.get("init", []), "input": c, "events": [{"op": "raise", "what": what}]}
        out.append(r)
    return out
