from checks import flowcommon


def run(tier, seed, replay=None):
    return flowcommon.run("C09", tier, seed, replay)
