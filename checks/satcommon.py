"""Shared flow for C01 (models are models) and C02 (verdicts, learned clauses, termination)."""
import copy
import json
import os
import random

from vlib import tlc
from vlib.pool import run_tasks
from vlib.runner import Check
from drivers import sat as drv

DIR = "Cdcl"
C01_CLAUSES = ("Model.",)


def mine(pid, v):
    """project a verdict onto the property: C01 owns the Model.* clause, C02 the verdict / step clauses (why2)"""
    if v["ok"]:
        return v
    if pid == "C01":
        return v if v["why"].startswith(C01_CLAUSES) else dict(v, ok=True, div=[])
    w2 = v.get("why2", "")
    return dict(v, why=w2) if w2 else dict(v, ok=True, div=[])


def fix(results, cases):
    out = []
    for r, c in zip(results, cases):
        if not isinstance(r, dict) or "events" not in r:
            what = "noreturn" if isinstance(r, dict) and r.get("__noreturn__") else "raise"
            r = {"clauses": c["clauses"], "assumptions": c.get("assumptions", []), "limit": c.get("limit", 1),
                 "max_conflicts": c.get("max_conflicts", 100000), "max_restarts": c.get("max_restarts", 10000),
                 "luby_factor": c.get("luby_factor", 100), "planted": c.get("planted", []), "input": c, "internal_events": 0, "truncated": False,
                 "events": [{"e": what, "what": "WorkerCrash"}]}
        out.append(r)
    return out


def run(pid, tier, seed, replay=None):
    ck = Check(pid, tier, seed)
    rng = random.Random(seed * 7919 + 1)
    if replay:
        with open(replay) as fh:
            rp = json.load(fh)
        case = rp["trace"]["input"]
        trs = fix(run_tasks("sat", "run_sat", [case], timeout=600), [case])
        vs = ck.validate(DIR, "CdclTrace", trs, "replay")
        ck.classify(trs, [mine(pid, v) for v in vs])
        return ck.finish()

    # ---- design level
    ck.mc(DIR, "DpllTwin", "MC_DpllTwin.cfg")
    ck.mc(DIR, "Cdcl", "MC_Cdcl_quick.cfg")
    ck.mc(DIR, "Cdcl", "MC_Cdcl_live.cfg")
    if tier == "thorough":
        ck.mc(DIR, "Cdcl", "MC_Cdcl_thorough.cfg", timeout=14400)
    if pid == "C01":
        ck.mc(DIR, "Cdcl", "NC_Cdcl_backjump.cfg", expect_violation="C01")
        ck.mc(DIR, "Cdcl", "NC_Cdcl_restart0.cfg", expect_violation="C01")
        ck.mc(DIR, "Cdcl", "NC_Cdcl_reduce.cfg", expect_violation="NoDup")
    else:
        ck.mc(DIR, "Cdcl", "NC_Cdcl_pure.cfg", expect_violation="C02unsat")
        ck.mc(DIR, "Cdcl", "NC_Cdcl_learn.cfg", expect_violation="LearnedEntailed")

    # ---- spec -> code: every formula of the design scope, exported by TLC, under the parameter grid
    wd = tlc.scratch("exp-")
    exp = os.path.join(wd, "formulas.ndjson")
    r = tlc.run_tlc(os.path.join(tlc.SPECS, DIR), "CdclExport", "Export_quick.cfg" if tier == "quick" else "Export_thorough.cfg",
                    env={"EXPORT_FILE": exp})
    if "No error has been found" not in r["out"] or not os.path.exists(exp):
        raise tlc.MachineryError("formula export failed:\n" + r["out"][-2000:])
    formulas = [json.loads(x) for x in open(exp)]
    import shutil
    shutil.rmtree(wd, ignore_errors=True)
    cases = []
    for f in formulas:
        for g in (drv.GRID if tier == "thorough" else drv.GRID[:2]):
            c = {"clauses": f["clauses"], "assumptions": f["assumptions"]}
            c.update(g)
            cases.append(c)
    ck.extra["tlc_exported_formulas"] = len(formulas)
    # ---- random formulas (learning, backjumping, restarts fire)
    cases += drv.gen_random(rng, 400 if tier == "quick" else 6000)
    cases += drv.gen_budget(rng, 120 if tier == "quick" else 1500)
    cases += drv.gen_units(rng, 1500 if tier == "quick" else 20000)
    cases += drv.gen_planted(rng, 12 if tier == "quick" else 150)
    if pid == "C01":
        cases += drv.gen_select_php(rng, 2 if tier == "quick" else 12)
    if pid == "C01":    # reaches reduce_db with blocking clauses in the database
        cases += drv.gen_enum(rng, 4, small=True) if tier == "quick" else drv.gen_enum(rng, 24)
    # the repository's own tests as an input source: every solve_sat call they make (incl. CNFs produced by the CP encoder)
    from vlib import corpus
    rc = corpus.sat_cases(corpus.capture(["tests/solvors/test_sat.py", "tests/solvors/test_cp.py"]))
    ck.extra["inputs_recorded_from_repository_tests"] = len(rc)
    cases += rc
    if tier == "thorough":
        for p, h in ((4, 3), (5, 4), (6, 5)):
            for lf in (1, 3):
                cases.append({"clauses": drv.pigeonhole(p, h), "assumptions": [], "limit": 1, "max_conflicts": 100000,
                              "max_restarts": 10000, "luby_factor": lf})
    trs = fix(run_tasks("sat", "run_sat", cases, timeout=300), cases)
    vs = ck.validate(DIR, "CdclTrace", trs, "recorded solve_sat executions", timeout=14400)
    ck.classify(trs, [mine(pid, v) for v in vs], nontrivial=lambda t, v: t.get("internal_events", 0) >= 3)
    for t in trs:
        for e in t["events"]:
            ck.actions[e["e"]] = ck.actions.get(e["e"], 0) + 1
    ck.extra["traces_with_learned_clauses"] = sum(1 for v in vs if v.get("nlearn", 0) > 0)
    ck.extra["learned_clauses_checked_for_entailment"] = sum(v.get("nlearn", 0) for v in vs)
    ck.extra["traces_with_blocking_clauses"] = sum(1 for v in vs if v.get("nblock", 0) > 0)
    ck.extra["enumerations_with_reduce_db_over_blocking_clauses"] = sum(
        1 for t in trs if t.get("reduce_db_calls", 0) > 0 and t["limit"] > 1)
    ck.extra["planted_instances_with_reduce_db"] = sum(1 for t in trs if t.get("reduce_db_calls", 0) > 0 and t["planted"])
    ck.extra["models_returned_by_enumerations"] = sum(len(t["events"][-1].get("sols", [])) for t in trs if t.get("reduce_db_calls") is not None)
    ck.extra["traces_with_restart"] = sum(1 for t in trs if any(e["e"] == "restart" for e in t["events"]))
    ck.extra["traces_truncated_to_return_level"] = sum(1 for t in trs if t.get("truncated"))
    ck.extra["traces_without_internal_events"] = sum(1 for t in trs if t.get("internal_events", 0) == 0)
    big = [t for t in trs if t.get("internal_events", 0) > 10]
    for t in (big[:1] + trs[:1]):
        ck.sample({k: (v if k != "events" else v[:15] + v[-1:]) for k, v in t.items() if k != "input"})

    # ---- binding demonstration
    good = [(t, v) for t, v in zip(trs, vs) if v["ok"]]
    ctl = []
    for t, v in good:      # flip a literal of a returned model
        ret = t["events"][-1]
        if ret["e"] == "return" and ret["sols"] and ret["sols"][0] and len(t["clauses"]) > 3 and not ctl:
            for i in range(len(ret["sols"][0])):
                c = copy.deepcopy(t)
                c["events"][-1]["sols"][0][i] *= -1
                c["events"][-1]["first"] = c["events"][-1]["sols"][0]
                ctl.append((c, "Model.", "flipped literals in a returned model"))
    ctl = ctl[:6]
    n1 = len(ctl)
    for t, v in good:      # drop a literal from a learned clause
        ls = [i for i, e in enumerate(t["events"]) if e["e"] == "learn" and e["has_clause"] and len(e["clause"]) >= 2]
        if ls and len(ctl) < n1 + 8:
            c = copy.deepcopy(t)
            del c["events"][ls[0]]["clause"][0]
            ctl.append((c, "Learn.not_entailed", "dropped the asserting literal of a learned clause"))
    n2 = len(ctl)
    for t, v in good:      # claim UNSAT for a satisfiable formula
        ret = t["events"][-1]
        if ret["e"] == "return" and ret["status"] == "OPTIMAL" and len(ctl) < n2 + 1:
            c = copy.deepcopy(t)
            c["events"][-1].update(status="INFEASIBLE", sols=[], has_first=False, first=[])
            ctl.append((c, "ReturnUnsat.formula_is_satisfiable", "status rewritten to INFEASIBLE"))
    cv = ck.validate(DIR, "CdclTrace", [c for c, _, _ in ctl], "negative controls")
    fired = {}
    for (c, exp_, name), v in zip(ctl, cv):
        if not v["ok"] and v["why"].startswith(exp_):
            fired[name] = fired.get(name, 0) + 1
    for name in ("flipped literals in a returned model", "dropped the asserting literal of a learned clause",
                 "status rewritten to INFEASIBLE"):
        ck.control(f"corrupted trace rejected: {name} ({fired.get(name, 0)} variants)", fired.get(name, 0) > 0, str(cv)[:500])

    ck.rule = ("inputs: every CNF over 2 variables with <= 2 (quick) / 3 (thorough) clauses of <= 3 literals incl. empty "
               "and tautological clauses x every assumption set of size <= 1, exported by TLC, replayed under a parameter "
               "grid; plus seeded random mixed-length CNFs (1-12 variables, gaps, duplicates) and threshold 3-SAT (10-22 "
               "variables) with random budgets, luby_factor and solution_limit; non-trivial = execution with >= 3 internal "
               "events; distinct by hash of (formula, assumptions, parameters)")
    ck.exhaustive = False
    ck.assumptions = ["hook events are emitted at the state change (checked by the diagnostic guards)",
                      "Dpll oracle (cross-checked against truth tables in DpllTwin)"]
    return ck.finish()
