"""C15 — cut vertices, bridges, k-cores, PageRank, Louvain (DESIGN §5 C15)."""
import copy
import json
import random

from vlib import tlc
from vlib.pool import run_tasks
from vlib.runner import Check
from drivers import gprops as drv

PID, DIR = "C15", "GraphProps"


def run(tier, seed, replay=None):
    ck = Check(PID, tier, seed)
    rng = random.Random(seed * 7919 + 15)
    if replay:
        cases = [json.load(open(replay))["trace"]["input"]]
    else:
        ck.mc(DIR, "GpAlgs", "MC_low4.cfg")
        ck.mc(DIR, "GpAlgs", "MC_peel4.cfg")
        ck.mc(DIR, "GpAlgs", "NC_low.cfg", expect_violation="LowFinal")
        ck.mc(DIR, "GpAlgs", "NC_peel.cfg", expect_violation="PeelFinal")
        cases = [drv.gen(rng, nmax=5 if i % 3 == 0 else 9) for i in range(500 if tier == "quick" else 8000)]
    res = run_tasks("gprops", "run_gp", cases, timeout=120)
    trs = []
    for r, c in zip(res, cases):
        if not isinstance(r, dict) or "events" not in r:
            what = "noreturn" if isinstance(r, dict) and r.get("__noreturn__") else "raise"
            r = {"n": c["n"], "edges": c["edges"], "input": c, "events": [{"e": what, "fn": "worker", "what": "WorkerCrash"}]}
        trs.append(r)
    vs = ck.validate(DIR, "GpTrace", trs, "all six functions on the same graph", timeout=3000)
    ck.classify(trs, vs, nontrivial=lambda t, v: len(t["edges"]) >= 2)
    for t in trs:
        for e in t["events"]:
            k = e["fn"] + (":" + e["status"] if "status" in e else "")
            ck.actions[k] = ck.actions.get(k, 0) + 1
    if replay:
        return ck.finish()
    ck.sample({k: v for k, v in trs[0].items() if k != "input"})
    ck.sample({k: v for k, v in trs[-1].items() if k != "input"})
    ctl = []
    for t, v in zip(trs, vs):
        if not v["ok"] or t["n"] < 4:
            continue
        for i, e in enumerate(t["events"]):
            if e.get("fn") == "pagerank" and e.get("status") == "OPTIMAL" and not any(x[1] == "PageRank." for x in ctl) and len(t["edges"]) >= 4:
                c = copy.deepcopy(t); s = c["events"][i]["scores"]; s[0] += 400; s[1] -= 400; ctl.append((c, "PageRank."))
            if e.get("fn") == "louvain" and len(e["comms"]) >= 2 and not any(x[1] == "Louvain.modularity_mismatch" for x in ctl):
                c = copy.deepcopy(t); c["events"][i]["mod6"] += 5000; ctl.append((c, "Louvain.modularity_mismatch"))
            if e.get("fn") == "kcore_decomposition" and not any(x[1] == "KCore.wrong_core_number" for x in ctl):
                c = copy.deepcopy(t); c["events"][i]["cores"][0][1] += 1; ctl.append((c, "KCore.wrong_core_number"))
            if e.get("fn") == "bridges" and e["edges"] and not any(x[1] == "Bridges.wrong_set" for x in ctl):
                c = copy.deepcopy(t); c["events"][i]["edges"].pop(); ctl.append((c, "Bridges.wrong_set"))
            if e.get("fn") == "articulation" and e["nodes"] and not any(x[1] == "Articulation.wrong_set" for x in ctl):
                c = copy.deepcopy(t); c["events"][i]["nodes"].pop(); ctl.append((c, "Articulation.wrong_set"))
        if len(ctl) >= 5:
            break
    if len(ctl) < 5:
        raise tlc.MachineryError("negative controls could not all be built: " + str([x[1] for x in ctl]))
    cv = ck.validate(DIR, "GpTrace", [c for c, _ in ctl], "negative controls")
    for (c, exp), v in zip(ctl, cv):
        ck.control(f"corrupted trace rejected ({exp} -> {v['why']})", (not v["ok"]) and exp in v["why"], str(v))
    ck.rule = ("random graphs with 1-9 nodes given by neighbour lists: 70% symmetric, 30% asymmetric (an edge exists when either end lists "
               "the other; every function is checked on both), duplicates, self loops, isolated nodes, planted bridges, shuffled node order, int/str labels; damping in "
               "{0.05..0.95}, tolerance 1e-6 / 1e-4, resolutions in {1/4..5}; non-trivial = >= 2 listed neighbours; distinct by hash")
    ck.assumptions = ["neighbour lists are read as simple undirected graphs (duplicates are not parallel edges)",
                      "PageRank residual bound: per node |s - F(s)| <= n*tol*d + rounding slack, scores scaled by 10^6",
                      "Louvain modularity compared at 2e-6 (TLC integers are 32-bit)"]
    return ck.finish()
