#!/usr/bin/env python3
"""Regenerates MANIFEST.json from the table below (single source of truth for the interface)."""
import json, os
HERE = os.path.dirname(os.path.abspath(__file__))
CHECKS = json.load(open(os.path.join(HERE, "manifest_src.json")))
props = [json.loads(l)["id"] for l in open(os.path.join(HERE, "properties.jsonl"))]
checks = []
for pid in props:
    c = CHECKS["checks"].get(pid)
    if not c:
        continue
    checks.append({
        "property_id": pid,
        "quick_cmd": f"./check {pid} --tier quick",
        "thorough_cmd": f"./check {pid} --tier thorough",
        "evidence_file": f"/verif/evidence/{pid}.json",
        "replay_cmd_template": f"./check {pid} --replay {{path}}",
        "engine": c.get("engine", "tlc"),
        "level_claimed": {"category": c.get("category", "model_checking"), "text": c["text"], "design_ref": c.get("design_ref", "DESIGN.md §5 " + pid)},
        "level_note": c["note"],
        "technique": c["technique"],
    })
na = [{"property_id": p, "reason": CHECKS["not_applicable"].get(p, "check not built yet in this round; see DESIGN.md §5")} for p in props if p not in CHECKS["checks"]]
m = {
    "version": 1,
    "setup_cmd": CHECKS["setup_cmd"],
    "hooks": CHECKS["hooks"],
    "engines": CHECKS["engines"],
    "checks": checks,
    "notes": CHECKS["notes"],
    "not_applicable": na,
}
json.dump(m, open(os.path.join(HERE, "MANIFEST.json"), "w"), indent=1)
print("checks:", len(checks), "not_applicable:", len(na))
