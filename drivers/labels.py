"""Node labels as callers really build them: every occurrence of a label (dictionary key, neighbour entry, source / goal argument)
is a separate object that is EQUAL to the others but, where the type allows, not IDENTICAL (labels parsed from files or computed:
tuples, strings built at run time, integers beyond CPython's small-int cache).  Code that compares labels with `is` must not pass."""


def fresh(lb):
    if isinstance(lb, tuple) and lb:
        return tuple([fresh(x) for x in lb])
    if isinstance(lb, str) and len(lb) >= 2:
        return "".join(list(lb))
    if isinstance(lb, bool) or lb is None:
        return lb
    if isinstance(lb, int) and abs(lb) > 256:
        return int(str(lb))
    if isinstance(lb, float):
        return float(repr(lb))
    if isinstance(lb, frozenset) and lb:
        return frozenset(set(lb))
    if isinstance(lb, bytes) and len(lb) >= 2:
        return bytes(bytearray(lb))
    return lb


class FreshList(list):
    """a label table whose every lookup hands out a fresh equal object"""

    def __getitem__(self, i):
        v = list.__getitem__(self, i)
        return FreshList(v) if isinstance(i, slice) else fresh(v)


def cont_mode(case):
    """0, 1 or 2, a stable function of the case (so that a replay presents the input the same way): which container kinds the
    driver uses for sequences the signatures type as Sequence - lists (0), tuples (1), or tuples outside and lists inside (2)"""
    import json
    import zlib
    try:
        return zlib.crc32(json.dumps(case, sort_keys=True, default=str).encode()) % 3
    except Exception:  # noqa: BLE001
        return 0


def seq1(xs, mode):
    return tuple(xs) if mode in (1, 2) else list(xs)


def seq2(rows, mode):
    if mode == 1:
        return tuple(tuple(r) for r in rows)
    if mode == 2:
        return tuple(list(r) for r in rows)
    return [list(r) for r in rows]
