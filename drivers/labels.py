"""Node labels as callers really build them: every occurrence of a label (dictionary key, neighbour entry, source / goal argument)
is a separate object that is EQUAL to the others but, where the type allows, not IDENTICAL (labels parsed from files or computed:
tuples, strings built at run time, integers beyond CPython's small-int cache).  Code that compares labels with `is` must not pass."""


def fresh(lb):
    if isinstance(lb, tuple) and lb:
        return tuple([fresh(x) for x in lb])
    if isinstance(lb, str) and len(lb) >= 2:
        return "".join(list(lb))
    if isinstance(lb, bool) or lb is None:
        return lb
    if isinstance(lb, int) and abs(lb) > 256:
        return int(str(lb))
    if isinstance(lb, float):
        return float(repr(lb))
    if isinstance(lb, frozenset) and lb:
        return frozenset(set(lb))
    if isinstance(lb, bytes) and len(lb) >= 2:
        return bytes(bytearray(lb))
    return lb


class FreshList(list):
    """a label table whose every lookup hands out a fresh equal object"""

    def __getitem__(self, i):
        v = list.__getitem__(self, i)
        return FreshList(v) if isinstance(i, slice) else fresh(v)
