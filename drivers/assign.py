"""C10 driver: solve_hungarian on integer / quarter-unit matrices, both directions."""
from drivers.labels import cont_mode, seq1, seq2
import random

SCALE = 4


def run_hungarian(case):
    from solvor.hungarian import solve_hungarian
    M = case["matrix"]                       # integers in units of 1/scale
    sc = case.get("scale", 1)
    real = [[x / sc for x in row] for row in M] if sc != 1 or case.get("floats") else [list(row) for row in M]
    K = case.get("shift", 0)                 # huge integer entries: every matching of min(r, c) pairs shifts by the same constant
    if K:
        real = [[x + K for x in row] for row in M]
    off = K * min(len(M), len(M[0]) if M else 0)
    events = []
    for minimize in (True, False):
        try:
            r = solve_hungarian(seq2(real, cont_mode(case)), minimize=minimize)
            obj = r.objective
            if K and isinstance(obj, float) and obj == int(obj):
                obj = int(obj)
            o = float(obj - off) * sc
            a = list(r.solution)
            if not all(type(x) is int for x in a):
                events.append({"e": "raise", "what": "non_int_assignment"})
                continue
            events.append({"e": "ret", "status": r.status.name, "minimize": minimize, "assignment": a, "obj": int(round(o)), "exact": abs(o - round(o)) < 1e-9})
        except Exception as ex:  # noqa: BLE001
            events.append({"e": "raise", "what": type(ex).__name__})
    return {"matrix": M, "events": events, "input": case}


def run_hungarian_steps(case):
    """Step level: the hungarian_init / hungarian_stage hook events of one call per direction -> traces for HungarianSteps.tla"""
    from solvor import _verif
    from solvor.hungarian import solve_hungarian
    M = case["matrix"]
    sc = case.get("scale", 1)
    real = [[x / sc for x in row] for row in M] if sc != 1 or case.get("floats") else [list(row) for row in M]
    out = []
    for minimize in (True, False):
        _verif.start()
        try:
            solve_hungarian(real, minimize=minimize)
        except Exception:  # noqa: BLE001
            pass
        events, dropped = _verif.stop()
        init = next((e for e in events if e["e"] == "hungarian_init"), None)
        if init is None or dropped:
            continue

        def ints(xs):
            vals = [float(x) * sc for x in xs]
            return [int(round(v)) for v in vals], all(abs(v - round(v)) < 1e-9 and abs(v) < 10 ** 8 for v in vals)
        n = init["n"]
        mat = [ints(row)[0] for row in init["matrix"]]
        stages = []
        for e in events:
            if e["e"] != "hungarian_stage":
                continue
            u, eu = ints(e["u"][1:])
            v, ev = ints(e["v"][1:])
            stages.append({"row": int(e["row"]), "u": u, "v": v, "match": [int(x) for x in e["match"][1:]], "exact": bool(eu and ev)})
        out.append({"n": n, "matrix": mat, "minimize": minimize, "stages": stages, "input": case})
    return {"steps": out}


def gen(rng, maxn=7):
    r, c = rng.randint(1, maxn), rng.randint(1, maxn)
    if maxn >= 7 and rng.random() < 0.04:
        # beyond permutation enumeration: the trace spec decides these with a dynamic programme over column subsets
        r, c = rng.randint(6, 9), rng.randint(8, 9)
        if rng.random() < 0.5:
            r, c = c, r
    style = rng.random()
    if style < 0.15:
        vals = [-3, -2, -1, 0, 0, 0, 1, 2]  # zeros among negative entries: reduced costs of a fresh row can be negative
    elif style < 0.3:
        vals = [0, 1]                      # many ties
    elif style < 0.6:
        vals = list(range(-4, 10))
    else:
        vals = list(range(-20, 40))
    sc = rng.choice([1, 1, 4])
    case = {"matrix": [[rng.choice(vals) for _ in range(c)] for _ in range(r)], "scale": sc, "floats": rng.random() < 0.5}
    k = rng.random()
    if k < 0.1:
        case.update(scale=1, floats=False, shift=rng.choice([2 ** 50, 2 ** 53, 10 ** 16, 2 ** 60 + 1, 10 ** 18]))   # beyond float exactness
    elif k < 0.2:
        case.update(scale=rng.choice([2 ** 32, 2 ** 40]), matrix=[[abs(x) % 8 for x in row] for row in case["matrix"]])  # tiny dyadic entries, exact in binary64
    return case
