"""C10 driver: solve_hungarian on integer / quarter-unit matrices, both directions."""
import random

SCALE = 4


def run_hungarian(case):
    from solvor.hungarian import solve_hungarian
    M = case["matrix"]                       # integers in units of 1/scale
    sc = case.get("scale", 1)
    real = [[x / sc for x in row] for row in M] if sc != 1 or case.get("floats") else [list(row) for row in M]
    events = []
    for minimize in (True, False):
        try:
            r = solve_hungarian(real, minimize=minimize)
            o = float(r.objective) * sc
            a = list(r.solution)
            if not all(type(x) is int for x in a):
                events.append({"e": "raise", "what": "non_int_assignment"})
                continue
            events.append({"e": "ret", "status": r.status.name, "minimize": minimize, "assignment": a, "obj": int(round(o)), "exact": abs(o - round(o)) < 1e-9})
        except Exception as ex:  # noqa: BLE001
            events.append({"e": "raise", "what": type(ex).__name__})
    return {"matrix": M, "events": events, "input": case}


def gen(rng, maxn=7):
    r, c = rng.randint(1, maxn), rng.randint(1, maxn)
    style = rng.random()
    if style < 0.3:
        vals = [0, 1]                      # many ties
    elif style < 0.6:
        vals = list(range(-4, 10))
    else:
        vals = list(range(-20, 40))
    sc = rng.choice([1, 1, 4])
    return {"matrix": [[rng.choice(vals) for _ in range(c)] for _ in range(r)], "scale": sc, "floats": rng.random() < 0.5}
