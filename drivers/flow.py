"""C08 / C09 driver: max_flow, min_cost_flow, network_simplex, solve_assignment."""
import random

from drivers.labels import cont_mode, seq1

INF = float("inf")


_ODD = [None, "", 0, (), False and 0 or 1.5, frozenset(), b"", ("t",), -1, "x", 7, (0, 0), 2.5, "None", frozenset([1]), 99]


def _label(kind, i):
    if kind == "odd":        # "any node labels": falsy ones, None, bytes, frozensets - pairwise distinct and hashable
        return _ODD[i] if i < len(_ODD) else ("odd", i)
    return {"str": "n%d" % i, "tuple": (i, 0), "big": 1000 + i}.get(kind, i)


def _fresh(lb):
    """an equal but (where the type allows) not identical object: callers build the labels of arcs, of dictionary keys and of the
    source / sink arguments separately (parsed from files, computed), so code that compares labels with `is` must not pass"""
    if isinstance(lb, tuple) and lb:
        return tuple([_fresh(x) for x in lb])
    if isinstance(lb, str) and len(lb) >= 2:
        return "".join(list(lb))
    if isinstance(lb, bool) or lb is None:
        return lb
    if isinstance(lb, int) and abs(lb) > 256:
        return int(str(lb))
    if isinstance(lb, float):
        return float(repr(lb))
    if isinstance(lb, frozenset) and lb:
        return frozenset(set(lb))
    if isinstance(lb, bytes) and len(lb) >= 2:
        return bytes(bytearray(lb))
    return lb


def _isint(x):
    return isinstance(x, int) and not isinstance(x, bool) or (isinstance(x, float) and x == int(x))


def _flows(sol, ids):
    out = []
    for (u, v), f in sol.items():
        if not _isint(f):
            raise ValueError("non_integral_flow")
        out.append([ids[u], ids[v], int(f)])
    return sorted(out)


def run_maxflow(case):
    from solvor.flow import max_flow
    n, kind = case["n"], case.get("labels", "int")
    labs = [_label(kind, i) for i in range(n)]
    ids = {lb: i for i, lb in enumerate(labs)}
    g = {}
    ko = case.get("key_order") or {2: "rev", 1: "far"}.get(cont_mode(case))
    if ko == "rev":
        # rows listed head-before-tail (descending node order): the residual structure must not depend on the order of the rows
        for i in sorted({u for u, _, _, _ in case["arcs"]}, reverse=True):
            g[_fresh(labs[i])] = []
    elif ko == "far":
        # rows listed from the sink side towards the source (descending BFS distance from the source)
        dist = {case["s"]: 0}
        q = [case["s"]]
        for a in q:
            for u, v, c, _ in case["arcs"]:
                if u == a and v not in dist:
                    dist[v] = dist[a] + 1
                    q.append(v)
        for i in sorted({u for u, _, _, _ in case["arcs"]}, key=lambda x: (-dist.get(x, 99), -x)):
            g[_fresh(labs[i])] = []
    for u, v, c, _ in case["arcs"]:
        g.setdefault(_fresh(labs[u]), []).append((_fresh(labs[v]), c) if case.get("two_tuple", True) else (_fresh(labs[v]), c, 0))
    if case.get("all_keys"):
        for lb in labs:
            g.setdefault(_fresh(lb), [])
    try:
        cm = cont_mode(case)
        r = max_flow({k: seq1(v, cm) for k, v in g.items()}, _fresh(labs[case["s"]]), _fresh(labs[case["t"]]))
        if not _isint(r.objective):
            ev = {"e": "raise", "fn": "max_flow", "what": "non_integral_value"}
        else:
            ev = {"e": "ret", "fn": "max_flow", "status": r.status.name, "flows": _flows(r.solution, ids), "value": int(r.objective)}
    except Exception as ex:  # noqa: BLE001
        ev = {"e": "raise", "fn": "max_flow", "what": type(ex).__name__ + (":" + str(ex) if isinstance(ex, ValueError) else "")}
    return {"kind": "maxflow", "n": n, "arcs": case["arcs"], "s": case["s"], "t": case["t"], "events": [ev], "input": case}


def _cost_event(fn, r, ids, off=0, limited=True):
    """off: the exact integer every feasible flow's cost was shifted by (families with huge integer costs); the trace carries the
    unshifted small costs, so the subtraction has to be exact - a float objective at that magnitude shows up as a wrong cost"""
    ev = {"e": "ret", "fn": fn, "status": r.status.name, "flows": [], "cost": 0, "exact": True, "limited": bool(limited)}
    if r.status.name in ("OPTIMAL", "FEASIBLE"):
        ev["flows"] = _flows(r.solution, ids)
        obj = r.objective
        if off and isinstance(obj, float) and obj == int(obj):
            obj = int(obj)
        c = float(obj - off)
        ev["cost"] = int(round(c))
        ev["exact"] = abs(c - round(c)) < 1e-9
    return ev


def run_mincost(case):
    from solvor.flow import min_cost_flow
    from solvor.network_simplex import network_simplex
    n, kind = case["n"], case.get("labels", "int")
    labs = [_label(kind, i) for i in range(n)]
    ids = {lb: i for i, lb in enumerate(labs)}
    events = []
    supplies = case.get("supplies")
    K = case.get("shift", 0)           # every arc cost is raised by K; all routes have case["layers"] arcs, so costs shift by a constant
    units = case["demand"] if supplies is None else sum(x for x in supplies if x > 0)
    off = K * case.get("layers", 0) * units
    real_arcs = [(u, v, c, w + K) for u, v, c, w in case["arcs"]]
    if supplies is None:
        g = {_fresh(lb): [] for lb in labs}
        for u, v, c, w in real_arcs:
            g[labs[u]].append((_fresh(labs[v]), c, w))
        try:
            cm = cont_mode(case)
            events.append(_cost_event("min_cost_flow", min_cost_flow({k: seq1(v, cm) for k, v in g.items()}, _fresh(labs[case["s"]]), _fresh(labs[case["t"]]), case["demand"]), ids, off))
        except Exception as ex:  # noqa: BLE001
            events.append({"e": "raise", "fn": "min_cost_flow", "what": type(ex).__name__})
        supplies = [0] * n
        supplies[case["s"]] += case["demand"]
        supplies[case["t"]] -= case["demand"]
    if case["s"] != case["t"]:      # parallel arcs are part of C09's domain for network_simplex too
        try:
            r = network_simplex(n, list(real_arcs), [float(x) for x in supplies] if case.get("float_supplies") else list(supplies))
            events.append(_cost_event("network_simplex", r, {i: i for i in range(n)}, off, limited=False))
        except Exception as ex:  # noqa: BLE001
            events.append({"e": "raise", "fn": "network_simplex", "what": type(ex).__name__})
        for mi in case.get("ns_max_iters", (0, 1, 2, 4)):       # iteration limits: MAX_ITER / FEASIBLE are fine, a wrong verdict is not
            try:
                r = network_simplex(n, list(real_arcs), list(supplies), max_iter=mi)
                events.append(_cost_event("network_simplex", r, {i: i for i in range(n)}, off))
            except Exception as ex:  # noqa: BLE001
                events.append({"e": "raise", "fn": "network_simplex", "what": type(ex).__name__})
    return {"kind": "mincost", "n": n, "arcs": case["arcs"], "s": case["s"], "t": case["t"], "demand": case.get("demand", 0),
            "supplies": supplies, "events": events, "input": case}


def run_assign(case):
    from solvor.flow import solve_assignment
    M = case["matrix"]
    K = case.get("shift", 0)           # every entry raised by K: each assignment of the min(r, c) rows shifts by the same constant
    try:
        r = solve_assignment([list(map(float, row)) if case.get("floats") else [x + K for x in row] for row in M])
        obj = r.objective
        if K and isinstance(obj, float) and obj == int(obj):
            obj = int(obj)
        c = float(obj - K * min(len(M), len(M[0]) if M else 0))
        ev = {"e": "ret", "fn": "solve_assignment", "status": r.status.name, "assignment": [int(x) for x in r.solution],
              "cost": int(round(c)), "exact": abs(c - round(c)) < 1e-9}
    except Exception as ex:  # noqa: BLE001
        ev = {"e": "raise", "fn": "solve_assignment", "what": type(ex).__name__}
    return {"kind": "assign", "n": 0, "arcs": [], "matrix": M, "events": [ev], "input": case}


def gen_ns_tight(rng):
    n = rng.randint(3, 7)
    arcs, seen = [], set()
    for _ in range(rng.randint(n, 2 * n + 2)):
        u, v = rng.sample(range(n), 2)
        if (u, v) in seen:
            continue
        seen.add((u, v))
        arcs.append([u, v, rng.randint(0, 3), rng.randint(0, 9)])
    b = [0] * n
    for _ in range(rng.randint(1, 3)):
        a, c = rng.sample(range(n), 2)
        k = rng.randint(1, 3)
        b[a] += k
        b[c] -= k
    return {"n": n, "arcs": arcs, "supplies": b, "s": 0, "t": n - 1, "labels": "int"}


def gen_antiparallel(rng):
    """middle nodes joined by anti-parallel arc pairs with small capacities: augmentations have to cancel part of the flow on
    the opposite arc"""
    k = rng.randint(2, 5)
    n = k + 2
    arcs = {}
    mids = list(range(1, k + 1))
    for u in mids:
        for v in mids:
            if u < v and rng.random() < 0.7:
                arcs[(u, v)] = rng.randint(1, 3)
                arcs[(v, u)] = rng.randint(1, 3)
    for u in mids:
        if rng.random() < 0.6:
            arcs[(0, u)] = rng.randint(1, 4)
        if rng.random() < 0.6:
            arcs[(u, n - 1)] = rng.randint(1, 4)
    items = [[u, v, c, 0] for (u, v), c in arcs.items()]
    rng.shuffle(items)
    return {"n": n, "arcs": items, "s": 0, "t": n - 1, "labels": "int", "all_keys": False}


def gen_cancel_template(rng):
    """a short s-b-a-t path that is saturated first, and a longer s-c-a-b-d-t path that must push against b->a through the
    anti-parallel arc a->b; capacities randomised around the values that make the second push larger than the flow to cancel"""
    f, g = rng.randint(1, 2), rng.randint(1, 2)
    big = f + g + rng.randint(-1, 1)
    arcs = [[0, 1, f + rng.randint(0, 1), 0], [1, 2, f + rng.randint(0, 1), 0], [2, 5, f + rng.randint(0, 1), 0],
            [0, 3, max(1, big), 0], [3, 2, max(1, big + rng.randint(0, 1)), 0], [2, 1, g, 0], [1, 4, max(1, big), 0], [4, 5, max(1, big + rng.randint(0, 1)), 0]]
    n = 6
    for _ in range(rng.randint(0, 2)):           # noise arcs
        u, v = rng.sample(range(n), 2)
        if v != 0 and u != 5 and not any(a[0] == u and a[1] == v for a in arcs):
            arcs.append([u, v, rng.randint(1, 2), 0])
    perm = list(range(1, 5))
    rng.shuffle(perm)
    relabel = {0: 0, 5: 5, **{i + 1: perm[i] for i in range(4)}}
    arcs = [[relabel[u], relabel[v], c, 0] for u, v, c, _ in arcs]
    rng.shuffle(arcs)
    return {"n": n, "arcs": arcs, "s": 0, "t": 5, "labels": "int", "all_keys": False}


def gen_repush_template(rng):
    """three augmentations on one arc a->b: a shortest path saturates it, a longer path cancels that flow through the residual
    arc b->a, and the only remaining augmenting path needs a->b a second time.  Path lengths are padded with extra nodes so that
    breadth-first search finds them in this order; capacities and extra arcs are randomised around the pattern."""
    names = ["s", "a", "b", "t"]
    arcs = []

    def chain(u, v, extra, cap):
        prev = u
        for _ in range(extra):
            w = "n%d" % len(names)
            names.append(w)
            arcs.append([prev, w, cap])
            prev = w
        arcs.append([prev, v, cap])
    e1, e2 = rng.randint(0, 1), rng.randint(0, 1)
    arcs += [["s", "a", 1], ["a", "b", 1], ["b", "t", 1]]               # route 1: s-a-b-t
    chain("s", "c", 0, 2); names.append("c")                            # route 2: s-c-b ~ a-e-t
    chain("c", "b", e1, 1)
    chain("a", "e", 0, 1); names.append("e")
    chain("e", "t", e2, 2)
    chain("c", "a", 1 + e1 + rng.randint(0, 1), 1)                      # route 3: s-c-..-a -> b -..- e-t
    chain("b", "e", 1 + e2 + rng.randint(0, 1), 1)
    for _ in range(rng.randint(0, 2)):                                  # noise
        u, v = rng.sample(names, 2)
        if v != "s" and u != "t" and not any(x[0] == u and x[1] == v for x in arcs):
            arcs.append([u, v, 1])
    ids = {nm: i for i, nm in enumerate(["s"] + rng.sample([n for n in names if n not in ("s", "t")], len(names) - 2) + ["t"])}
    items = [[ids[u], ids[v], c + (1 if rng.random() < 0.1 else 0), 0] for u, v, c in arcs]
    rng.shuffle(items)
    return {"n": len(names), "arcs": items, "s": ids["s"], "t": ids["t"], "labels": rng.choice(["int", "str"]), "all_keys": False}


def _repush(aug):
    """coverage criterion: some augmentation pushes forward flow on an arc whose flow an earlier augmentation had cancelled"""
    cancelled = set()
    for e in aug:
        for u, v in e.get("push_hops", []):
            if (u, v) in cancelled:
                return True
        for u, v in e.get("cancel_hops", []):
            cancelled.add((v, u))         # hop u->v cancelled flow on the real arc v->u
    return False


def run_maxflow_bulk(case):
    """Coverage-directed generation for max_flow: keep every execution in which an augmentation cancels only part of the flow
    on the opposite arc, or pushes again on an arc whose flow had been cancelled (both rare), plus a sample."""
    from solvor import _verif
    rng = random.Random(case["seed"])
    kept, cov = [], {"instances": 0, "partial_cancellation": 0, "full_cancellation": 0, "push_again_after_cancellation": 0, "sampled": 0}
    for _ in range(case["count"]):
        r = rng.random()
        c = gen_cancel_template(rng) if r < 0.2 else (gen_repush_template(rng) if r < 0.4 else gen_antiparallel(rng))
        if not c["arcs"]:
            continue
        _verif.start()
        tr = run_maxflow(c)
        events, _ = _verif.stop()
        aug = [e for e in events if e.get("e") == "maxflow_augment"]
        part = any(e["partial_cancel"] for e in aug)
        full = any(e["full_cancel"] for e in aug)
        again = _repush(aug)
        cov["instances"] += 1
        cov["partial_cancellation"] += part
        cov["full_cancellation"] += full
        cov["push_again_after_cancellation"] += again
        # the templates are built to NEED a cancellation: a share of them is kept whatever the execution did, so that an execution
        # that should have cancelled and did not is validated too (selecting on the event alone would drop exactly those)
        if part or again or (full and rng.random() < 0.05) or rng.random() < 0.005 or (r < 0.4 and rng.random() < 0.04):
            cov["sampled"] += 1
            tr["coverage"] = "PartialCancellation" if part else ("PushAgainAfterCancellation" if again else "sample")
            kept.append(tr)
    return {"kept": kept, "cov": cov}


def _ns_steps(events, hit_limit):
    """hook events of one network_simplex call -> trace for NsTrace.tla (1-based arcs and nodes, integers only)"""
    init = next((e for e in events if e["e"] == "ns_init"), None)
    if init is None:
        return None

    def ints(xs):
        out, exact = [], True
        for x in xs:
            r = int(round(x))
            exact = exact and abs(x - r) < 1e-9 and abs(r) < 10 ** 8
            out.append(max(-10 ** 8, min(10 ** 8, r)))
        return out, exact
    cost, ce = ints(init["cost"])
    sup, se = ints(init["supplies"])

    def snap(e, piv=None):
        pi, pe = ints(e["pi"])
        fl, fe = ints(e["flow"])
        r = {"flow": fl, "tree": [a + 1 for a in e["tree"]], "pi": pi, "exact": bool(pe and fe and ce and se),
             "entering": 0, "leaving": 0, "from_upper": False, "delta": 0}
        if piv is not None:
            d, _ = ints([piv["delta"]])
            r.update(entering=piv["entering"] + 1, leaving=piv["leaving"] + 1, from_upper=bool(piv["from_upper"]), delta=d[0])
        return r
    steps = [snap(init)]
    piv = None
    for e in events:
        if e["e"] == "ns_pivot":
            piv = e
        elif e["e"] == "ns_state":
            if piv is None:
                return None
            steps.append(snap(e, piv))
            piv = None
    return {"n": init["n"], "src": [x + 1 for x in init["source"]], "tgt": [x + 1 for x in init["target"]], "cap": ints(init["cap"])[0],
            "cost": cost, "supplies": sup, "steps": steps, "hit_limit": bool(hit_limit)}


def run_ns_steps(case):
    """network_simplex with the snapshot hooks on: the whole pivot sequence as a trace for NsTrace.tla"""
    from solvor import _verif
    from solvor.network_simplex import network_simplex
    _verif.start()
    try:
        r = network_simplex(case["n"], [tuple(a) for a in case["arcs"]], list(case["supplies"]))
        status = r.status.name
    except Exception as ex:  # noqa: BLE001
        status = "raise:" + type(ex).__name__
    events, dropped = _verif.stop()
    tr = None if dropped or len(events) > 400 else _ns_steps(events, status == "MAX_ITER")
    if tr is None:
        return {"skipped": True}
    tr["status"] = status
    tr["input"] = case
    return tr


def run_ns_bulk(case):
    """Coverage-directed generation (DESIGN §2.2): run many small tight instances through network_simplex with the pivot
    hook on and keep the executions that take rarely exercised spec actions (an arc entering from its upper bound with a
    non-degenerate step; long pivot sequences), plus a small sample of the rest.  Only the kept ones are sent to TLC."""
    from solvor import _verif
    from solvor.network_simplex import network_simplex
    rng = random.Random(case["seed"])
    kept, cov = [], {"instances": 0, "enter_from_upper_nondegenerate": 0, "pivots>=6": 0, "sampled": 0}
    steps = []
    for i in range(case["count"]):
        c = gen_ns_tight(rng)
        _verif.start()
        try:
            r = network_simplex(c["n"], [tuple(a) for a in c["arcs"]], list(c["supplies"]))
            ev = _cost_event("network_simplex", r, {k: k for k in range(c["n"])}, limited=False)
        except Exception as ex:  # noqa: BLE001
            ev = {"e": "raise", "fn": "network_simplex", "what": type(ex).__name__}
        events, _ = _verif.stop()
        piv = [e for e in events if e.get("e") == "ns_pivot"]
        cov["instances"] += 1
        rare = any(e["from_upper"] and e["delta"] > 0 for e in piv)
        longrun = len(piv) >= 6
        cov["enter_from_upper_nondegenerate"] += rare
        cov["pivots>=6"] += longrun
        if rare or (longrun and rng.random() < 0.3) or rng.random() < 0.01 or ev.get("status") in ("MAX_ITER", "FEASIBLE"):
            cov["sampled"] += 1
            kept.append({"kind": "mincost", "n": c["n"], "arcs": c["arcs"], "s": 0, "t": c["n"] - 1, "demand": 0, "supplies": c["supplies"],
                         "events": [ev], "input": c, "coverage": "EnterFromUpper" if rare else ("LongPivotSequence" if longrun else "sample")})
            st = _ns_steps(events, ev.get("status") == "MAX_ITER") if len(events) <= 400 else None
            if st is not None:
                st["status"] = ev.get("status", "raise")
                st["input"] = c
                steps.append(st)
    return {"kept": kept, "cov": cov, "steps": steps}


# ------------------------------------------------------------------ generators
def gen_maxflow(rng, nmax=10):
    n = rng.randint(2, nmax)
    arcs = []
    layered = rng.random() < 0.4
    dens = rng.choice([0.2, 0.3, 0.5])
    for u in range(n):
        for v in range(n):
            if u == v:
                continue
            if layered and not (0 < v - u <= 3) and rng.random() < 0.85:
                continue
            if rng.random() < dens:
                arcs.append([u, v, rng.choice([0, 1, 1, 1, 2, 3, 5]), 0])
                if rng.random() < 0.15:
                    arcs.append([u, v, rng.randint(1, 3), 0])           # parallel arc
    rng.shuffle(arcs)
    s, t = (0, n - 1) if layered or rng.random() < 0.6 else rng.sample(range(n), 2)
    return {"n": n, "arcs": arcs, "s": s, "t": t, "labels": rng.choice(["int", "str", "tuple", "odd", "big"]), "all_keys": rng.random() < 0.5}


def unit_layered(rng):
    """unit-capacity layered graphs (the shape on which shortest augmenting paths must use pure reverse arcs)"""
    layers = [[0]]
    nid = 1
    for _ in range(rng.randint(2, 3)):
        k = rng.randint(2, 3)
        layers.append(list(range(nid, nid + k)))
        nid += k
    layers.append([nid])
    n = nid + 1
    arcs = []
    for a, b in zip(layers, layers[1:]):
        for u in a:
            for v in b:
                if rng.random() < 0.6:
                    arcs.append([u, v, 1, 0])
    for a, b in zip(layers, layers[2:]):          # a few skip arcs make path lengths differ
        for u in a:
            for v in b:
                if rng.random() < 0.15:
                    arcs.append([u, v, 1, 0])
    rng.shuffle(arcs)
    return {"n": n, "arcs": arcs, "s": 0, "t": n - 1, "labels": "int", "all_keys": False}


def gen_mincost(rng, nmax=8, general=False):
    n = rng.randint(2, nmax)
    arcs = []
    dens = rng.choice([0.25, 0.4, 0.6])
    neg = rng.random() < 0.3
    par = rng.random() < 0.45
    # negative costs without negative cycles: cost = non-negative base + pi[u] - pi[v] for node potentials pi
    pi = [rng.randint(0, 4) if neg else 0 for _ in range(n)]
    for u in range(n):
        for v in range(n):
            if u == v or rng.random() >= dens:
                continue
            cost = rng.randint(0, 6) + pi[u] - pi[v]
            arcs.append([u, v, rng.choice([0, 1, 2, 3, 4]), cost])
            if par and rng.random() < 0.5:
                arcs.append([u, v, rng.randint(1, 3), cost if rng.random() < 0.4 else rng.randint(0, 6) + pi[u] - pi[v]])
    rng.shuffle(arcs)
    case = {"n": n, "arcs": arcs[:14], "s": 0, "t": n - 1, "labels": rng.choice(["int", "str", "odd", "tuple", "big"])}
    if general:
        b = [0] * n
        for _ in range(rng.randint(1, 3)):
            a, c = rng.sample(range(n), 2)
            k = rng.randint(1, 3)
            b[a] += k
            b[c] -= k
        case["supplies"] = b
        case["float_supplies"] = rng.random() < 0.5
    else:
        case["demand"] = rng.randint(0, 6)
    return case


def gen_mincost_cheapfirst(rng, general=False):
    """more arcs than nodes, the free (zero-cost) arcs listed first and the priced ones last, costs of very different sizes: any
    penalty or bound derived from part of the arc list only is too small for the priced routes"""
    n = rng.randint(2, 6)
    pairs = [(u, v) for u in range(n) for v in range(n) if u != v]
    free = [[*rng.choice(pairs), rng.randint(1, 4), 0] for _ in range(n + rng.randint(0, 2))]
    priced = [[*rng.choice(pairs), rng.randint(1, 4), rng.choice([1, 3, 7, 9, 20, 50])] for _ in range(rng.randint(1, 12 - n))]
    if rng.random() < 0.5:
        priced.append([0, n - 1, 4, rng.choice([9, 30, 70])])          # a direct priced link, often the only way to meet the demand
    case = {"n": n, "arcs": free + priced, "s": 0, "t": n - 1, "labels": rng.choice(["int", "str"]), "ns_max_iters": (2,)}
    if general:
        b = [0] * n
        for _ in range(rng.randint(1, 2)):
            a, c = rng.sample(range(n), 2)
            k = rng.randint(1, 3)
            b[a] += k
            b[c] -= k
        case["supplies"] = b
    else:
        case["demand"] = rng.randint(1, 4)
    return case


def gen_mincost_negative_tail(rng):
    """the cheapest route starts dearer than a whole rival route and only wins through a negative arc at its end (no negative cycle):
    labels beyond the sink's current label still have to be expanded"""
    n = rng.randint(3, 5)
    s, t = 0, n - 1
    c = rng.randint(1, 4)
    arcs = [[s, t, rng.randint(1, 3), c]]
    for v in range(1, n - 1):
        d = c + rng.randint(0, 3)
        e = rng.randint(d - c + 1, d + 2)
        arcs += [[s, v, rng.randint(1, 3), d], [v, t, rng.randint(1, 3), -e]]
    rng.shuffle(arcs)
    return {"n": n, "arcs": arcs, "s": s, "t": t, "labels": rng.choice(["int", "str"]), "demand": rng.randint(1, 4), "ns_max_iters": (2,)}


def gen_mincost_longroute(rng):
    """a cheap route of 4-6 hops whose nodes are numbered against the scan order of the node set (sink 0, source highest), plus
    costlier shortcut arcs into its middle and end: Bellman-Ford needs one relaxation round per hop, and a node's distance keeps
    improving through an unchanged parent arc in late rounds"""
    k = rng.randint(4, 6)
    n = k + 1
    s, t = k, 0
    labels = list(range(n))
    if rng.random() < 0.3:
        rng.shuffle(labels)              # other scan orders as well
    route = [labels[i] for i in range(k, -1, -1)]          # s ... t
    arcs = []
    for a, b in zip(route, route[1:]):
        arcs.append([a, b, rng.randint(1, 2), rng.randint(0, 2)])
    for _ in range(rng.randint(1, 3)):
        j = rng.randint(2, k)
        arcs.append([route[0], route[j], rng.randint(1, 2), rng.randint(3, 12)])
    if rng.random() < 0.5:
        i, j = sorted(rng.sample(range(1, k + 1), 2))
        arcs.append([route[i], route[j], 1, rng.randint(2, 9)])
    rng.shuffle(arcs)
    return {"n": n, "arcs": arcs, "s": route[0], "t": route[-1], "labels": "int", "demand": rng.randint(1, 2)}


def gen_assign(rng):
    r, c = rng.randint(1, 5), rng.randint(1, 5)
    case = {"matrix": [[rng.randint(-3, 9) for _ in range(c)] for _ in range(r)], "floats": rng.random() < 0.3}
    if not case["floats"] and rng.random() < 0.25:
        case["shift"] = rng.choice(BIG)
    if rng.random() < 0.12:
        # one side with 11-13 rows / columns (two-digit positions), the other small enough for the subset oracle
        a, b = rng.randint(1, 3), rng.randint(11, 13)
        r, c = (a, b) if rng.random() < 0.5 else (b, a)
        case = {"matrix": [[rng.randint(0, 9) for _ in range(c)] for _ in range(r)], "floats": False}
    return case


BIG = [2 ** 50, 2 ** 53, 10 ** 15, 10 ** 16, 2 ** 60 + 1, 10 ** 18]


def gen_mincost_huge(rng, general=False):
    """integer costs beyond 2^50 (float arithmetic is no longer exact there): a layered network in which every route has the same
    number of arcs, with every cost raised by one huge constant - the trace keeps the small costs and the shifted objective"""
    L = rng.randint(1, 3)
    widths = [rng.randint(1, 3) if general else 1] + [rng.randint(1, 3) for _ in range(L - 1)] + [rng.randint(1, 3) if general else 1]
    layers, n = [], 0
    for w in widths:
        layers.append(list(range(n, n + w)))
        n += w
    arcs = []
    for a, b in zip(layers, layers[1:]):
        for u in a:
            for v in b:
                for _ in range(rng.choice([0, 1, 1, 2, 3])):
                    arcs.append([u, v, rng.randint(0, 3), rng.randint(0, 7)])
    rng.shuffle(arcs)
    case = {"n": n, "arcs": arcs[:14], "s": 0, "t": n - 1, "labels": rng.choice(["int", "str", "odd"]), "shift": rng.choice(BIG), "layers": L,
            "ns_max_iters": (1, 3)}
    if general:
        b = [0] * n
        for _ in range(rng.randint(1, 3)):
            k = rng.randint(1, 2)
            b[rng.choice(layers[0])] += k
            b[rng.choice(layers[-1])] -= k
        case["supplies"] = b
    else:
        case["demand"] = rng.randint(0, 4)
    return case
