"""C17 driver: solve_cg / solve_bp in cutting-stock mode and with a custom pricing function over an explicit pool."""
from drivers.labels import cont_mode, seq1, seq2
import random


def _plan(r):
    if r.solution is None:
        return []
    out = []
    for pat, cnt in r.solution.items():
        if not all(type(x) is int for x in pat) or not (type(cnt) is int or (isinstance(cnt, float) and cnt == int(cnt))):
            raise ValueError("non_integer_plan")
        out.append({"p": list(pat), "k": int(cnt)})
    return out


def _event(solver, r):
    o = float(r.objective)
    fin = o == o and abs(o) < 1e9
    return {"e": "ret", "solver": solver, "status": r.status.name, "plan": _plan(r) if r.status.name in ("OPTIMAL", "FEASIBLE") else [],
            "obj": int(round(o)) if fin else -1, "exact": fin and abs(o - round(o)) < 1e-9}


def run_cut(case):
    from solvor.bp import solve_bp
    from solvor.cg import solve_cg
    events = []
    if case["kind"] == "stock":
        W = float(case["W"]) if case.get("floats") else case["W"]
        for solver, fn in (("cg", solve_cg), ("bp", solve_bp)):
            try:
                cm = cont_mode(case)
                events.append(_event(solver, fn(seq1(case["demands"], cm), roll_width=W, piece_sizes=seq1(case["sizes"], cm))))
            except Exception as ex:  # noqa: BLE001
                events.append({"e": "raise", "solver": solver, "what": type(ex).__name__ + (":" + str(ex) if isinstance(ex, ValueError) else "")})
        for mi in case.get("max_iters", (0, 1, 2)):          # an iteration limit must not produce a false OPTIMAL
            try:
                events.append(_event("cg", solve_cg(case["demands"], roll_width=W, piece_sizes=case["sizes"], max_iter=mi)))
            except Exception as ex:  # noqa: BLE001
                events.append({"e": "raise", "solver": "cg", "what": type(ex).__name__})
        # branch-and-price limits and the relative gap tolerance may end the search early, never license OPTIMAL for a non-minimal plan
        for kw in case.get("bp_limits", ({"gap_tol": 0.2}, {"gap_tol": 0.5}, {"max_nodes": 1}, {"max_nodes": 3}, {"max_iter": 0}, {"max_iter": 1}, {"max_iter": 2, "gap_tol": 0.1})):
            try:
                events.append(_event("bp", solve_bp(case["demands"], roll_width=W, piece_sizes=case["sizes"], **kw)))
            except Exception as ex:  # noqa: BLE001
                events.append({"e": "raise", "solver": "bp", "what": type(ex).__name__})
        return {"kind": "stock", "W": case["W"], "sizes": case["sizes"], "demands": case["demands"], "pool": [], "events": events, "input": case}
    pool = [tuple(c) for c in case["pool"]]

    def pricing(duals):
        best, bestrc = None, -1e-9
        for col in pool:
            rc = 1.0 - sum(d * a for d, a in zip(duals, col))
            if rc < bestrc:
                best, bestrc = col, rc
        return (best, bestrc) if best is not None else (None, 0.0)
    for solver, fn in (("cg", solve_cg), ("bp", solve_bp)):
        try:
            events.append(_event(solver, fn(case["demands"], pricing_fn=pricing, initial_columns=[list(c) for c in case["initial"]])))
        except Exception as ex:  # noqa: BLE001
            events.append({"e": "raise", "solver": solver, "what": type(ex).__name__})
    for mi in case.get("max_iters", (0, 1)):
        try:
            events.append(_event("cg", solve_cg(case["demands"], pricing_fn=pricing, initial_columns=[list(c) for c in case["initial"]], max_iter=mi)))
        except Exception as ex:  # noqa: BLE001
            events.append({"e": "raise", "solver": "cg", "what": type(ex).__name__})
    for kw in ({"gap_tol": 0.3}, {"max_nodes": 1}):
        try:
            events.append(_event("bp", solve_bp(case["demands"], pricing_fn=pricing, initial_columns=[list(c) for c in case["initial"]], **kw)))
        except Exception as ex:  # noqa: BLE001
            events.append({"e": "raise", "solver": "bp", "what": type(ex).__name__})
    return {"kind": "custom", "W": 0, "sizes": [], "demands": case["demands"], "pool": [list(c) for c in pool], "events": events, "input": case}


def run_cut_history(case):
    """call history in one process on the same objects: solve, change one piece size IN PLACE in the very list that was passed,
    solve again with that list.  The trace describes the second instance; its events are the second solves."""
    from solvor.bp import solve_bp
    from solvor.cg import solve_cg
    sizes = list(case["sizes"])
    demands = list(case["demands"])
    W = case["W"]
    try:
        solve_cg(demands, roll_width=W, piece_sizes=sizes)
    except Exception:  # noqa: BLE001
        pass
    k = case["mut_index"] % len(sizes)
    sizes[k] = case["mut_size"]
    events = []
    for solver, fn in (("cg", solve_cg), ("bp", solve_bp)):
        try:
            events.append(_event(solver, fn(demands, roll_width=W, piece_sizes=sizes)))
        except Exception as ex:  # noqa: BLE001
            events.append({"e": "raise", "solver": solver, "what": type(ex).__name__})
    return {"kind": "stock", "W": W, "sizes": list(sizes), "demands": demands, "pool": [], "events": events, "history": True, "input": case}


def run_cg_steps(case):
    """Step level: wrap cg._solve_master_lp and cg.knapsack_pricing (module-level names the loop calls) and log every call."""
    import math
    import solvor.cg as CG
    W, sizes, demands = case["W"], case["sizes"], case["demands"]
    steps = []
    orig_m, orig_p = CG._solve_master_lp, CG.knapsack_pricing

    def s6(v):
        return int(round(v * 1000000))

    def master(columns, dem, eps):
        r = orig_m(columns, dem, eps)
        x, d, lp = r
        fin = all(isinstance(v, (int, float)) and math.isfinite(v) and abs(v) < 1000 for v in list(x) + list(d) + [lp])
        steps.append({"k": "master", "cols": [list(c) for c in columns], "finite": bool(fin),
                      "x6": [s6(v) for v in x] if fin else [0] * len(columns), "duals6": [s6(v) for v in d] if fin else [0] * len(dem),
                      "lp6": s6(lp) if fin else 0})
        return r

    def price(piece_sizes, roll_width, duals, eps):
        r = orig_p(piece_sizes, roll_width, duals, eps)
        pat, val = r
        steps.append({"k": "price", "pattern": [int(v) for v in pat], "value6": s6(val) if math.isfinite(val) and abs(val) < 1000 else 0})
        return r
    CG._solve_master_lp, CG.knapsack_pricing = master, price
    try:
        try:
            r = CG.solve_cg(demands, roll_width=W, piece_sizes=sizes)
            status = r.status.name
        except Exception as ex:  # noqa: BLE001
            status = "raise:" + type(ex).__name__
    finally:
        CG._solve_master_lp, CG.knapsack_pricing = orig_m, orig_p
    if not steps or len(steps) > 80:
        return {"skipped": True}
    last = [e for e in steps if e["k"] == "master"][-1]
    # converged = the loop ended because pricing found nothing (the step before the final master is a price step)
    converged = len(steps) >= 2 and steps[-2]["k"] == "price" and last["finite"]
    lb = int(math.ceil(last["lp6"] / 1000000 - 1e-6)) if last["finite"] else 0
    return {"W": W, "sizes": sizes, "demands": demands, "steps": steps, "status": status, "converged": bool(converged), "lb": lb, "input": case}


def run_cg_steps_custom(case):
    """Step level for custom-pricing mode: wrap cg._solve_master_lp, and log every call of the (driver-owned) exact pricing function
    over the explicit column set.  Same trace format as run_cg_steps, with "pool" instead of a roll width."""
    import math
    import solvor.cg as CG
    demands = case["demands"]
    pool = [tuple(c) for c in case["pool"]]
    m = len(demands)
    steps = []
    orig_m = CG._solve_master_lp

    def s6(v):
        return int(round(v * 1000000))

    def master(columns, dem, eps):
        r = orig_m(columns, dem, eps)
        x, d, lp = r
        fin = all(isinstance(v, (int, float)) and math.isfinite(v) and abs(v) < 1000 for v in list(x) + list(d) + [lp])
        steps.append({"k": "master", "cols": [list(c) for c in columns], "finite": bool(fin),
                      "x6": [s6(v) for v in x] if fin else [0] * len(columns), "duals6": [s6(v) for v in d] if fin else [0] * len(dem),
                      "lp6": s6(lp) if fin else 0})
        return r

    def pricing(duals):
        best, bestrc = None, -1e-9
        for col in pool:
            rc = 1.0 - sum(d * a for d, a in zip(duals, col))
            if rc < bestrc:
                best, bestrc = col, rc
        # logged like a knapsack pricing call: the most valuable column of the set under these duals and its value, improving or not
        top = max(pool, key=lambda col: sum(d * a for d, a in zip(duals, col)))
        val = sum(d * a for d, a in zip(duals, top))
        steps.append({"k": "price", "pattern": [int(v) for v in top], "value6": s6(val) if abs(val) < 1000 else 0})
        return (best, bestrc) if best is not None else (None, 0.0)
    CG._solve_master_lp = master
    try:
        try:
            r = CG.solve_cg(demands, pricing_fn=pricing, initial_columns=[list(c) for c in case["initial"]])
            status = r.status.name
        except Exception as ex:  # noqa: BLE001
            status = "raise:" + type(ex).__name__
    finally:
        CG._solve_master_lp = orig_m
    if not steps or len(steps) > 80 or not any(e["k"] == "master" for e in steps):
        return {"skipped": True}
    last = [e for e in steps if e["k"] == "master"][-1]
    converged = steps[-1]["k"] == "price" and steps[-1]["value6"] <= 1000000 + 100 and last["finite"] or (len(steps) >= 2 and steps[-2]["k"] == "price" and last["finite"])
    lb = int(math.ceil(last["lp6"] / 1000000 - 1e-6)) if last["finite"] else 0
    return {"W": 0, "sizes": [1] * m, "demands": demands, "pool": [list(c) for c in pool], "steps": steps, "status": status, "converged": bool(converged), "lb": lb,
            "input": case}


def gen_stock(rng):
    nt = rng.randint(1, 3) if rng.random() < 0.6 else rng.randint(4, 5)
    W = rng.randint(3, 12)
    sizes = [rng.randint(1, W) for _ in range(nt)]
    if rng.random() < 0.3 and nt >= 2:
        sizes[1] = sizes[0]                    # duplicate piece sizes
    if nt >= 4 and rng.random() < 0.5:         # complementary pairs: several ways to pair pieces into full rolls (degenerate pricing steps)
        sizes = []
        for _ in range(nt // 2):
            a = rng.randint(1, W - 1)
            sizes += [a, W - a]
        sizes = (sizes + [rng.randint(1, W)])[:nt]
        rng.shuffle(sizes)
    demands = [rng.randint(0, 4 if nt <= 3 else 2) for _ in range(nt)]
    if sum(demands) == 0:
        demands[0] = 1
    return {"kind": "stock", "W": W, "sizes": sizes, "demands": demands, "floats": rng.random() < 0.3}


def degenerate_reentry_corpus(rng, k=12):
    """a master LP in which a demand row's surplus variable enters, leaves and is needed again within one phase-2 run (degenerate
    over-production among three columns) - found by a reviewer's search (about 1 in 4000 uniform instances has it); the instance, and
    variants of it with the initial columns listed in other orders and the rows permuted"""
    cols = [(3, 1, 0, 1), (2, 2, 1, 2), (1, 0, 0, 0), (0, 1, 0, 0), (0, 0, 1, 0), (0, 0, 0, 1)]
    init = [(0, 0, 1, 0), (3, 1, 0, 1), (0, 1, 0, 0), (1, 0, 0, 0), (0, 0, 0, 1)]
    dem = [3, 4, 0, 2]
    out = [{"kind": "custom", "demands": list(dem), "initial": [list(c) for c in init], "pool": sorted(cols)}]
    for _ in range(k):
        perm = list(range(4))
        if rng.random() < 0.5:
            rng.shuffle(perm)
        ini = list(init)
        if rng.random() < 0.6:
            rng.shuffle(ini)
        d = [dem[i] for i in perm]
        if rng.random() < 0.3:
            d = [x * 2 for x in d]
        out.append({"kind": "custom", "demands": d, "initial": [[c[i] for i in perm] for c in ini], "pool": sorted(tuple(c[i] for i in perm) for c in cols)})
    return out


def gen_custom(rng):
    if rng.random() < 0.25:
        # wider explicit column sets: up to 5 rows, entries 0..3, demands 0..6
        m = rng.randint(3, 5)
        demands = [rng.randint(0, 6) for _ in range(m)]
        if sum(demands) == 0:
            demands[0] = 1
        initial = [[1 if i == j else 0 for i in range(m)] for j in range(m)]
        pool = {tuple(c) for c in initial}
        for _ in range(rng.randint(2, 8)):
            col = tuple(rng.randint(0, 3) for _ in range(m))
            if any(col):
                pool.add(col)
        extra = [list(c) for c in pool if rng.random() < 0.4 and list(c) not in initial]
        initial = initial + extra
        rng.shuffle(initial)
        return {"kind": "custom", "demands": demands, "initial": initial, "pool": sorted(pool)}
    m = rng.randint(1, 3)
    demands = [rng.randint(0, 3) for _ in range(m)]
    if sum(demands) == 0:
        demands[0] = 1
    initial = [[1 if i == j else 0 for i in range(m)] for j in range(m)]
    pool = {tuple(c) for c in initial}
    for _ in range(rng.randint(0, 5)):
        col = tuple(rng.randint(0, 2) for _ in range(m))
        if any(col):
            pool.add(col)
    r = rng.random()
    if r < 0.45:
        # a user-enumerated column set: pool columns handed over as initial columns in arbitrary order, possibly with the empty
        # pattern (covers nothing; legal, useless) somewhere in the list
        extra = [list(c) for c in pool if rng.random() < 0.6 and list(c) not in initial]
        initial = initial + extra
        rng.shuffle(initial)
        if rng.random() < 0.7:
            initial.insert(rng.randint(0, len(initial) - 1), [0] * m)
            pool.add(tuple([0] * m))
    return {"kind": "custom", "demands": demands, "initial": initial, "pool": sorted(pool)}
