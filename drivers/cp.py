"""C05/C06 driver: builds CP models through the public operators, captures the encoder's CNF (C06) and
Model.solve results (C05) as traces for CpTrace.tla.

A case is JSON: {"vars": [[name|None, lb, ub]...], "cons": [...], "solves": [{"solver","limit","hints"}...]}
Expression AST of a case (what the *user* writes): ["v", i] | ["c", k] | ["add", a, b] | ["sub", a, b] |
["mul", a, k] | ["rmul", k, a].  The semantic record handed to TLA+ is derived from this AST (the intent); the
`shape` string is derived from the tuple the *library* built (what the solvers dispatch on).
"""
import random


class Unsupported(Exception):
    pass


# ------------------------------------------------------------------ worker side
def _build_expr(e, xs):
    k = e[0]
    if k == "v":
        return xs[e[1]]
    if k == "c":
        return e[1]
    if k == "add":
        return _build_expr(e[1], xs) + _build_expr(e[2], xs)
    if k == "sub":
        return _build_expr(e[1], xs) - _build_expr(e[2], xs)
    if k == "mul":
        return _build_expr(e[1], xs) * e[2]
    if k == "rmul":
        return e[1] * _build_expr(e[2], xs)
    raise ValueError(k)


def _sem(e):
    k = e[0]
    if k == "v":
        return {"k": "var", "v": e[1] + 1}
    if k == "c":
        return {"k": "const", "c": e[1]}
    if k in ("add", "sub"):
        return {"k": k, "l": _sem(e[1]), "r": _sem(e[2])}
    if k == "mul":
        return {"k": "mul", "l": _sem(e[1]), "c": e[2]}
    if k == "rmul":
        return {"k": "mul", "l": _sem(e[2]), "c": e[1]}
    raise ValueError(k)


def _sig(x):
    from solvor.cp import IntVar
    if isinstance(x, IntVar):
        return "v"
    if isinstance(x, bool):
        return "b"
    if isinstance(x, int):
        return "c"
    if isinstance(x, tuple):
        return str(x[0]) + "(" + ",".join(_sig(y) for y in x[1:]) + ")"
    return type(x).__name__


def _shape(t):
    if not isinstance(t, tuple):
        return "non_tuple:" + type(t).__name__
    if t[0] == "ne_expr":
        return "ne_expr:" + ("ne" if t[3] else "eq") + ":" + _sig(t[1]) + "|" + _sig(t[2])
    return str(t[0])


def _coll(vs, mode):
    """the constructors take any iterable of variables: lists, tuples, generators, iterators (consumed after one pass)"""
    if mode == "tuple":
        return tuple(vs)
    if mode == "gen":
        return (v for v in vs)
    if mode == "iter":
        return iter(list(vs))
    return list(vs)


def build(case):
    """Returns (model, xs, sem_cons).  Raises Unsupported when the public operators reject the expression."""
    from solvor.cp import Model
    m = Model()
    xs = []
    for name, lb, ub in case["vars"]:
        xs.append(m.int_var(lb, ub, name) if name is not None else m.int_var(lb, ub))
    sem = []
    cm = case.get("coll", "list")
    for c in case["cons"]:
        k = c[0]
        try:
            if k == "cmp":
                lhs, rhs = _build_expr(c[2], xs), _build_expr(c[3], xs)
                t = (lhs == rhs) if c[1] == "eq" else (lhs != rhs)
                if not isinstance(t, tuple):
                    raise Unsupported("comparison did not build a constraint")
                s = {"k": c[1], "l": _sem(c[2]), "r": _sem(c[3])}
            elif k == "all_different":
                t = m.all_different(_coll([xs[i] for i in c[1]], cm))
                s = {"k": k, "vs": [i + 1 for i in c[1]]}
            elif k in ("sum_eq", "sum_le", "sum_ge"):
                t = getattr(m, k)(_coll([xs[i] for i in c[1]], cm), c[2])
                s = {"k": k, "vs": [i + 1 for i in c[1]], "c": c[2]}
            elif k == "circuit":
                t = m.circuit(_coll([xs[i] for i in c[1]], cm))
                s = {"k": k, "vs": [i + 1 for i in c[1]]}
            elif k == "no_overlap":
                t = m.no_overlap([xs[i] for i in c[1]], c[2])
                s = {"k": k, "vs": [i + 1 for i in c[1]], "d": c[2]}
            elif k == "cumulative":
                t = m.cumulative([xs[i] for i in c[1]], c[2], c[3], c[4])
                s = {"k": k, "vs": [i + 1 for i in c[1]], "d": c[2], "dem": c[3], "cap": c[4]}
            else:
                raise ValueError(k)
        except TypeError as ex:
            raise Unsupported(str(ex)) from ex
        s["shape"] = _shape(t)
        m.add(t)
        sem.append(s)
    return m, xs, sem


def _base(case, sem, kind):
    return {"kind": kind, "doms": [[lb, ub] for _, lb, ub in case["vars"]],
            "named": [not (n is None or str(n).startswith("_")) for n, _, _ in case["vars"]],
            "cons": sem, "input": case}


def run_enc(case):
    """C06: capture the CNF the encoder hands to solve_sat (no SAT solving takes place)."""
    import solvor.cp_encoder as enc_mod
    from solvor.types import Result, Status
    try:
        m, xs, sem = build(case)
    except Unsupported:
        return {"unsupported": True}
    got = {}

    def fake(clauses, **kw):
        got["cnf"] = [list(c) for c in clauses]
        return Result(None, 0, 0, 0, Status.INFEASIBLE)

    orig = enc_mod.solve_sat
    enc_mod.solve_sat = fake
    tr = _base(case, sem, "enc")
    try:
        enc = enc_mod.SATEncoder(m)
        enc.solve()
        cnf = got.get("cnf")
        if cnf is None:
            cnf = [list(c) for c in enc._clauses]
            tr["early_exit"] = True
        tr["cnf"] = cnf
        tr["bmap"] = [[x.bool_vars[v] for v in range(x.lb, x.ub + 1)] for x in xs]
        tr["nbool"] = max([abs(l) for c in cnf for l in c] + [0])
        tr["events"] = []
    except Exception as ex:  # noqa: BLE001
        tr["kind"] = "solve"
        tr["events"] = [{"e": "raise", "what": type(ex).__name__}]
    finally:
        enc_mod.solve_sat = orig
    return tr


def _solve_event(m, names, cfg):
    hints = cfg.get("hints") or None
    ev = {"e": "solve", "path": cfg["solver"], "limit": cfg["limit"],
          "hints": [[names.index(k) + 1, v] for k, v in (hints or {}).items() if k in names]}
    try:
        r = m.solve(hints=hints, solution_limit=cfg["limit"], solver=cfg["solver"])
    except Exception as ex:  # noqa: BLE001
        return {"e": "raise", "what": type(ex).__name__}
    sols = []
    raw = list(r.solutions) if r.solutions is not None else ([r.solution] if r.solution is not None else [])
    for s in raw:
        if not isinstance(s, dict) or any(k not in names for k in s) or any(type(v) is not int for v in s.values()):
            return {"e": "raise", "what": "MalformedSolution"}
        sols.append(sorted([names.index(k) + 1, v] for k, v in s.items()))
    ev["status"] = r.status.name
    ev["sols"] = sols
    return ev


def run_solve(case):
    """C05: every configuration on a fresh model, then all configurations again on ONE model object (history)."""
    try:
        m, xs, sem = build(case)
    except Unsupported:
        return {"unsupported": True}
    names = [x.name for x in xs]
    tr = _base(case, sem, "solve")
    events = []
    for cfg in case["solves"]:
        m1, _, _ = build(case)
        events.append(_solve_event(m1, names, cfg))
    for cfg in case["solves"]:
        events.append(_solve_event(m, names, cfg))
    tr["events"] = events
    return tr


def _capture_cnf(m, xs, tr):
    """encode the live model and capture what would be handed to solve_sat (no SAT solving)"""
    import solvor.cp_encoder as enc_mod
    from solvor.types import Result, Status
    got = {}

    def fake(clauses, **kw):
        got["cnf"] = [list(c) for c in clauses]
        return Result(None, 0, 0, 0, Status.INFEASIBLE)

    orig = enc_mod.solve_sat
    enc_mod.solve_sat = fake
    try:
        enc = enc_mod.SATEncoder(m)
        enc.solve()
        cnf = got.get("cnf")
        if cnf is None:
            cnf = [list(c) for c in enc._clauses]
            tr["early_exit"] = True
        tr["cnf"] = cnf
        tr["bmap"] = [[x.bool_vars[v] for v in range(x.lb, x.ub + 1)] for x in xs]
        tr["nbool"] = max([abs(l) for c in cnf for l in c] + [0])
        tr["events"] = []
    except Exception as ex:  # noqa: BLE001
        tr["kind"] = "solve"
        tr["events"] = [{"e": "raise", "what": type(ex).__name__}]
    finally:
        enc_mod.solve_sat = orig
    return tr


def run_enc_history(case):
    """C06 over call histories of one Model object: build the base model, really solve it with the SAT path (the encoder
    registers auxiliary variables in the model and draws booleans), THEN declare further variables / constraints on the
    same object, and capture the CNF of the next encoding.  The semantic record is the complete (extended) model."""
    base = {"vars": case["vars"][: case["nbase"]], "cons": [c for c in case["cons"][: case["cbase"]]], "solves": [], "coll": case.get("coll", "list")}
    try:
        m, xs, sem = build(base)
    except Unsupported:
        return {"unsupported": True}
    try:
        for _ in range(case.get("presolves", 1)):
            m.solve(solver="sat", solution_limit=case.get("prelimit", 1))
    except Exception as ex:  # noqa: BLE001
        tr = _base(case, sem, "solve")
        tr["events"] = [{"e": "raise", "what": type(ex).__name__}]
        return tr
    try:
        for name, lb, ub in case["vars"][case["nbase"]:]:
            xs.append(m.int_var(lb, ub, name) if name is not None else m.int_var(lb, ub))
        _, _, semfull = build({"vars": case["vars"], "cons": case["cons"], "solves": []})
        for t in _constraints_on(m, xs, case["cons"][case["cbase"]:], case.get("coll", "list")):
            m.add(t)
    except Unsupported:
        return {"unsupported": True}
    tr = _base(case, semfull, "enc")
    tr["history"] = True
    return _capture_cnf(m, xs, tr)


def run_solve_history(case):
    """C05 over call histories of one Model object: build the base model, solve it under every configuration (the encoder adds
    auxiliary variables to the model as a side effect), THEN declare further variables / constraints on the same object and
    solve again.  The trace describes the extended model; the events are the solves after the extension."""
    base = {"vars": case["vars"][: case["nbase"]], "cons": [c for c in case["cons"][: case["cbase"]]], "solves": case["solves"], "coll": case.get("coll", "list")}
    try:
        m, xs, sem = build(base)
    except Unsupported:
        return {"unsupported": True}
    names0 = [x.name for x in xs]
    for cfg in case["solves"][:4]:
        _solve_event(m, names0, cfg)
    # extension on the same Model object
    try:
        for name, lb, ub in case["vars"][case["nbase"]:]:
            xs.append(m.int_var(lb, ub, name) if name is not None else m.int_var(lb, ub))
        full = {"vars": case["vars"], "cons": case["cons"], "solves": case["solves"]}
        _, _, semfull = build(full)                       # semantic records of the complete model (fresh object, not solved)
        # add the remaining constraints to the live object through the public operators
        tmp = {"vars": case["vars"], "cons": case["cons"][case["cbase"]:], "solves": []}
        from solvor.cp import Model as _M  # noqa: F401
        live_cons = _constraints_on(m, xs, tmp["cons"], case.get("coll", "list"))
        for t in live_cons:
            m.add(t)
    except Unsupported:
        return {"unsupported": True}
    names = [x.name for x in xs]
    tr = _base(case, semfull, "solve")
    tr["events"] = [_solve_event(m, names, cfg) for cfg in case["solves"]]
    tr["history"] = True
    return tr


def _constraints_on(m, xs, cons, cm="list"):
    out = []
    for c in cons:
        k = c[0]
        try:
            if k == "cmp":
                lhs, rhs = _build_expr(c[2], xs), _build_expr(c[3], xs)
                t = (lhs == rhs) if c[1] == "eq" else (lhs != rhs)
                if not isinstance(t, tuple):
                    raise Unsupported("comparison did not build a constraint")
            elif k == "all_different":
                t = m.all_different(_coll([xs[i] for i in c[1]], cm))
            elif k in ("sum_eq", "sum_le", "sum_ge"):
                t = getattr(m, k)(_coll([xs[i] for i in c[1]], cm), c[2])
            elif k == "circuit":
                t = m.circuit(_coll([xs[i] for i in c[1]], cm))
            elif k == "no_overlap":
                t = m.no_overlap([xs[i] for i in c[1]], c[2])
            elif k == "cumulative":
                t = m.cumulative([xs[i] for i in c[1]], c[2], c[3], c[4])
            else:
                raise ValueError(k)
        except TypeError as ex:
            raise Unsupported(str(ex)) from ex
        out.append(t)
    return out


def gen_history_case(rng, aux=False):
    """base model with 2-3 variables and 1-2 constraints, extended by one variable and one constraint that uses it"""
    c = gen_case(rng)
    nv = len(c["vars"])
    while aux and nv < 4:
        c["vars"].append(["x%d" % nv, rng.randint(0, 1), rng.randint(2, 3)])
        nv += 1
    if nv < 3:
        c["vars"].append(["x%d" % nv, rng.randint(0, 1), rng.randint(2, 3)])
        nv += 1
    nbase = nv - 1
    base_cons = []
    doms = [[lb, ub] for _, lb, ub in c["vars"]]
    for _ in range(rng.randint(1, 2)):
        base_cons.append(gen_con(rng, nbase, doms[:nbase]))
    if aux and nbase >= 3:      # a base constraint whose encoding creates auxiliary variables (partial sums / positions)
        k = rng.choice(["sum_eq", "sum_le", "sum_ge", "circuit"])
        vs = rng.sample(range(nbase), 3)
        base_cons.append(["circuit", vs] if k == "circuit" else [k, vs, rng.randint(2, 6)])
    ext = [gen_con(rng, nv, doms)] if rng.random() < 0.8 else []
    if rng.random() < 0.6:
        ext.append(["sum_le", [rng.randrange(nbase), nv - 1], rng.randint(1, 5)])
    c["cons"] = base_cons + ext
    c["nbase"], c["cbase"] = nbase, len(base_cons)
    return c


# ------------------------------------------------------------------ generator side
def _v(i):
    return ["v", i]


def _c(k):
    return ["c", k]


def gen_expr(rng, nv, depth=0):
    r = rng.random()
    i, j, k = (rng.randrange(nv) for _ in range(3))
    c = rng.randint(-3, 4)
    m = rng.choice([2, 3, -1, 1, 0, 2])
    T = [
        _v(i), ["add", _v(i), _c(c)], ["add", _c(c), _v(i)], ["sub", _v(i), _c(c)], ["sub", _c(c), _v(i)],
        ["add", _v(i), _v(j)], ["sub", _v(i), _v(j)], ["add", ["add", _v(i), _v(j)], _c(c)],
        ["add", ["add", _v(i), _v(j)], _v(k)], ["mul", _v(i), m], ["rmul", m, _v(i)],
        ["add", ["rmul", m, _v(i)], _c(c)], ["add", ["rmul", m, _v(i)], _v(j)],
        ["sub", _v(i), ["add", _v(j), _c(c)]], ["sub", ["add", _v(i), _c(c)], ["add", _v(j), _c(1)]],
        ["add", ["sub", _v(i), _v(j)], _c(c)], ["mul", ["add", _v(i), _v(j)], m], ["sub", ["add", _v(i), _v(j)], _c(c)],
        ["add", _c(c), ["add", _v(i), _v(j)]], ["sub", ["rmul", m, _v(i)], ["mul", _v(j), 2]],
    ]
    return rng.choice(T)


def gen_con(rng, nv, doms):
    r = rng.random()
    idx = list(range(nv))
    if r < 0.05:
        # the two sides are the same linear function written differently (x + y vs y + x, 2*x vs x + x, (x - y) + (y - x) vs 0),
        # possibly shifted by a constant: every variable cancels, the constraint is a tautology or a contradiction
        i = rng.randrange(nv)
        j = rng.randrange(nv)
        shapes = [
            (["add", _v(i), _v(j)], ["add", _v(j), _v(i)]),
            (["rmul", 2, _v(i)], ["add", _v(i), _v(i)]),
            (["add", ["sub", _v(i), _v(j)], ["sub", _v(j), _v(i)]], _c(0)),
            (["add", ["rmul", 0, _v(i)], _c(1)], _c(1)),
            (["sub", ["add", _v(i), _v(j)], _v(j)], _v(i)),
            (["mul", ["add", _v(i), _v(j)], 2], ["add", ["rmul", 2, _v(j)], ["mul", _v(i), 2]]),
        ]
        lhs, rhs = rng.choice(shapes)
        if rng.random() < 0.3:
            rhs = ["add", rhs, _c(rng.choice([1, -1]))]
        if rng.random() < 0.3:
            lhs, rhs = rhs, lhs
        return ["cmp", rng.choice(["eq", "ne", "ne"]), lhs, rhs]
    if r < 0.1:
        # a constant minus a variable where its sign or weight is not +1: on the right-hand side, or under a multiplication
        i = rng.randrange(nv)
        j = rng.randrange(nv)
        c = rng.randint(1, max(2, doms[i][1] + doms[j][1]))
        m = rng.choice([2, -1, 3])
        shapes = [
            (_v(j), ["sub", _c(c), _v(i)]),
            (["add", _v(i), _v(j)], ["sub", _c(c), _v(i)]),
            (["mul", ["sub", _c(c), _v(i)], m], _v(j)),
            (["rmul", m, ["sub", _c(c), _v(i)]], ["add", _v(j), _c(1)]),
            (_c(rng.randint(0, 3)), ["sub", _c(c), ["add", _v(i), _v(j)]]),
        ]
        lhs, rhs = rng.choice(shapes)
        return ["cmp", rng.choice(["eq", "eq", "ne"]), lhs, rhs]
    if r < 0.15:
        # a plain signed sum k1*x + k2*y (+ k3*z) with negative multipliers, compared with a value it can actually take: every term
        # matters for the set of solutions
        k = rng.randint(1, min(3, nv))
        vs = rng.sample(idx, k)
        ks = [rng.choice([-2, -1, -1, 1, 2]) for _ in vs]
        if all(c > 0 for c in ks):
            ks[0] = -1
        terms = [(["rmul", c, _v(v)] if rng.random() < 0.5 else ["mul", _v(v), c]) if c != 1 or rng.random() < 0.5 else _v(v) for c, v in zip(ks, vs)]
        lhs = terms[0]
        for t in terms[1:]:
            lhs = ["add", lhs, t]
        val = sum(c * rng.randint(doms[v][0], doms[v][1]) for c, v in zip(ks, vs))
        rhs = _c(val) if rng.random() < 0.7 or nv == k else _v(rng.choice([i for i in idx if i not in vs]))
        if rng.random() < 0.2:
            lhs, rhs = rhs, lhs
        return ["cmp", rng.choice(["eq", "eq", "ne"]), lhs, rhs]
    if r < 0.5:
        op = rng.choice(["eq", "ne"])
        lhs = gen_expr(rng, nv)
        rr = rng.random()
        if rr < 0.35:
            lo = min(d[0] for d in doms)
            hi = max(d[1] for d in doms)
            rhs = _c(rng.randint(lo - 1, 2 * hi + 1))
        elif rr < 0.6:
            rhs = _v(rng.randrange(nv))
        else:
            rhs = gen_expr(rng, nv)
        if rng.random() < 0.2:
            lhs, rhs = rhs, lhs
        if lhs[0] == "c" and rhs[0] == "c":
            rhs = _v(rng.randrange(nv))
        return ["cmp", op, lhs, rhs]
    if r < 0.6:
        k = rng.randint(2, nv)
        vs = rng.sample(idx, k)
        if rng.random() < 0.08:
            vs.append(rng.choice(vs))          # the same variable listed twice: no assignment makes it differ from itself
        return ["all_different", vs]
    if r < 0.78:
        k = rng.randint(0, min(5, nv + 1))
        vs = [rng.randrange(nv) for _ in range(k)] if rng.random() < 0.3 else rng.sample(idx, min(k, nv))
        lo = sum(doms[i][0] for i in vs)
        hi = sum(doms[i][1] for i in vs)
        return [rng.choice(["sum_eq", "sum_le", "sum_ge"]), vs, rng.randint(lo - 1, hi + 1)]
    if r < 0.86:
        k = rng.randint(1, nv)
        return ["circuit", rng.sample(idx, k)]
    if r < 0.93:
        k = rng.randint(2, nv)
        vs = rng.sample(idx, k)
        return ["no_overlap", vs, [rng.randint(0, 3) for _ in vs]]
    k = rng.randint(1, nv)
    vs = rng.sample(idx, k)
    return ["cumulative", vs, [rng.randint(1, 3) for _ in vs], [rng.randint(1, 3) for _ in vs], rng.randint(1, 4)]


SOLVES = [
    {"solver": "auto", "limit": 1, "hints": None},
    {"solver": "dfs", "limit": 1, "hints": None},
    {"solver": "sat", "limit": 1, "hints": None},
    {"solver": "dfs", "limit": 3, "hints": None},
    {"solver": "sat", "limit": 3, "hints": None},
    {"solver": "auto", "limit": 40, "hints": None},
    {"solver": "sat", "limit": 40, "hints": None},
]


def gen_case(rng, circuit_friendly=False):
    nv = rng.randint(2, 4)
    five = not circuit_friendly and rng.random() < 0.14        # five variables over tiny domains: sums with 5 distinct terms
    anon = not circuit_friendly and not five and rng.random() < 0.2     # several unnamed helper variables that search has to decide
    if five:
        nv = 5
    vars_, doms = [], []
    for i in range(nv):
        if five:
            lb = rng.randint(-1, 1)
            ub = lb + rng.choice([1, 1, 2])
        elif circuit_friendly:
            lb, ub = (0, nv - 1) if rng.random() < 0.6 else (rng.randint(0, 1), rng.randint(nv - 2, nv))
            ub = max(ub, lb)
        else:
            lb = rng.randint(-2, 3)
            ub = lb + rng.choice([0, 1, 2, 2, 3, 3, 4])
        name = None if rng.random() < (0.75 if anon else 0.08) else ("x%d" % i)
        vars_.append([name, lb, ub])
        doms.append([lb, ub])
    ncon = rng.choice([1, 1, 1, 2, 2, 3])
    cons = [gen_con(rng, nv, doms) for _ in range(ncon)]
    if anon and nv >= 3:
        # constraints propagation alone does not decide while unnamed variables are open: a pigeonhole-tight all_different / a sum
        tight = rng.random() < 0.7          # one common domain with as many values as variables, or one fewer (no solution at all)
        lb0 = rng.randint(0, 1)
        for i in range(nv):
            lb = lb0 if tight else rng.randint(0, 1)
            vars_[i][1], vars_[i][2] = lb, (lb0 + nv - rng.choice([1, 2, 2])) if tight else lb + rng.choice([1, 2, 2])
            doms[i] = [vars_[i][1], vars_[i][2]]
        cons[0] = ["all_different", list(range(nv))] if rng.random() < 0.7 else \
                  ["cmp", "eq", ["add", ["add", _v(0), _v(1)], _v(2)], _c(rng.randint(sum(d[0] for d in doms[:3]), sum(d[1] for d in doms[:3])))]
    if five:
        vs = list(range(5))
        rng.shuffle(vs)
        kind5 = rng.choice(["sum_eq", "sum_le", "sum_ge", "sum_ge"])
        lo5, hi5 = sum(d[0] for d in doms), sum(d[1] for d in doms)
        if rng.random() < 0.4:
            vs = vs[:4]                    # four terms
            lo5, hi5 = sum(doms[i][0] for i in vs), sum(doms[i][1] for i in vs)
        cons[0] = [kind5, vs, rng.randint((lo5 + hi5) // 2, hi5) if kind5 == "sum_ge" and rng.random() < 0.6 else rng.randint(lo5, hi5)]
    if not circuit_friendly and not five and not anon and nv >= 3 and rng.random() < 0.08:
        # sum_eq over three or four variables the last of which is fixed: the recursion ends on (partial sum, constant)
        vs = rng.sample(range(nv), rng.randint(3, nv))
        t = vs[-1]
        vars_[t][2] = vars_[t][1]
        doms[t] = [vars_[t][1], vars_[t][1]]
        cons[0] = ["sum_eq", vs, rng.randint(sum(doms[i][0] for i in vs), sum(doms[i][1] for i in vs))]
    if not circuit_friendly and not five and not anon and nv >= 2 and rng.random() < 0.07:
        # x + a != y + b with a != b, next to an equality that forces the MIRROR value x = y - (b - a): satisfiable, and a propagator
        # that prunes with the wrong sign of the offset empties the domain
        i, j = rng.sample(range(nv), 2)
        a, b = rng.sample(range(0, 4), 2)
        for t in (i, j):
            vars_[t][1], vars_[t][2] = 0, rng.randint(4, 6)
            doms[t] = [0, vars_[t][2]]
        d = b - a
        eq = ["cmp", "eq", ["add", _v(i), _c(d)], _v(j)] if d > 0 else ["cmp", "eq", _v(i), ["add", _v(j), _c(-d)]]
        ne = ["cmp", "ne", ["add", _v(i), _c(a)], ["add", _v(j), _c(b)]] if rng.random() < 0.6 else \
             (["cmp", "ne", _v(i), ["add", _v(j), _c(d)]] if d > 0 else ["cmp", "ne", ["add", _v(i), _c(-d)], _v(j)])
        cons[:] = [ne, eq] + ([["cmp", "eq", _v(j), _c(rng.randint(max(0, d), 4))]] if rng.random() < 0.5 else [])
    if circuit_friendly and nv >= 4 and rng.random() < 0.35:
        # two nodes other than node 0 whose successors are fixed to each other: a subtour made of fixed arcs only
        i, j = rng.sample(range(1, nv), 2)
        vars_[i][1] = vars_[i][2] = j
        vars_[j][1] = vars_[j][2] = i
        doms[i], doms[j] = [j, j], [i, i]
    if cons[0][0] in ("sum_eq", "sum_le", "sum_ge") and len(cons[0][1]) >= 3 and rng.random() < 0.35:
        # a fixed (one-value) variable as the last, the first or a middle term of a longer sum
        t = cons[0][1][rng.choice([-1, -1, 0, 1])]
        vars_[t][2] = vars_[t][1]
        doms[t] = [vars_[t][1], vars_[t][1]]
    if circuit_friendly:
        cons[0] = ["circuit", list(range(nv)) if rng.random() < 0.8 else rng.sample(range(nv), nv)]
    solves = [dict(s) for s in SOLVES]
    # hints: feasible-looking, out of domain, unknown name
    named = [(n, lb, ub) for n, lb, ub in vars_ if n]
    if named and rng.random() < 0.5:
        n, lb, ub = rng.choice(named)
        h = {n: rng.randint(lb - 1, ub + 1)}
        if rng.random() < 0.2:
            h["nosuch"] = 1
        for sv in ("auto", "dfs", "sat"):
            solves.append({"solver": sv, "limit": rng.choice([1, 3]), "hints": h})
    if named and rng.random() < 0.5:
        # complete hints: a value for every named variable, each in its domain, jointly consistent or not
        h = {n: rng.randint(lb, ub) for n, lb, ub in named}
        if rng.random() < 0.3:
            v = rng.choice(list(h.values()))
            h = {n: (v if lb <= v <= ub else h[n]) for n, lb, ub in named}       # all equal where possible
        for sv in ("auto", "dfs", "sat"):
            solves.append({"solver": sv, "limit": rng.choice([1, 3]), "hints": h})
    return {"vars": vars_, "cons": cons, "solves": solves, "coll": rng.choice(["list", "list", "tuple", "gen", "iter"])}


def gen_no_overlap_windows(rng):
    """four or five tasks whose time windows chain: an opener with a tiny window, a task with a far-reaching window, a narrow early
    task, and a late task that can only collide with the far-reaching one (any pruning of task pairs by windows has to keep that pair)"""
    a = [0, rng.randint(0, 1), 1]
    lb = rng.randint(0, 1)
    b = [lb, lb + rng.randint(4, 6), rng.randint(2, 3)]
    lc = rng.randint(1, 2)
    c = [lc, lc, 1]
    ld = rng.randint(4, 6)
    d = [ld, ld + rng.randint(0, 1), rng.randint(1, 2)]
    tasks = [a, b, c, d]
    if rng.random() < 0.3:
        le = rng.randint(8, 9)
        tasks.append([le, le + 1, 1])
    order = list(range(len(tasks)))
    rng.shuffle(order)
    vars_ = [["s%d" % k, tasks[i][0], tasks[i][1]] for k, i in enumerate(order)]
    cons = [["no_overlap", list(range(len(tasks))), [tasks[i][2] for i in order]]]
    return {"vars": vars_, "cons": cons, "solves": [dict(s) for s in SOLVES], "coll": rng.choice(["list", "tuple"])}


def gen_cumulative_wide(rng):
    """cumulative over a window long enough that a time point has > 10 candidate literals"""
    nv = rng.randint(3, 4)
    vars_ = [["s%d" % i, 0, rng.randint(3, 4)] for i in range(nv)]
    dem = [rng.randint(1, 3) for _ in range(nv)]
    if rng.random() < 0.5:
        dem = sorted(dem)                  # light tasks listed first: a minimal overloaded set need not be a prefix of the task list
    cap = rng.randint(max(1, max(dem) - (1 if rng.random() < 0.15 else 0)), max(max(dem), sum(dem) - 1))
    if rng.random() < 0.5:
        # one light task listed first, heavy ones after it; two heavy ones overload the resource, one heavy plus the light one do not
        h = rng.randint(2, 3)
        dem = [1] + [h] * (nv - 1)
        cap = rng.randint(h, 2 * h - 2) if rng.random() < 0.8 else 2 * h - 1
    cons = [["cumulative", list(range(nv)), [rng.randint(2, 4) for _ in range(nv)], dem, cap]]
    return {"vars": vars_, "cons": cons, "solves": [dict(s) for s in SOLVES]}
