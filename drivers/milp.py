"""C04 driver: solve_milp on bounded integer-data instances under an option grid."""
import math
import random


def _x6(sol):
    return [int(round(v * 1000000)) for v in sol]


def run_milp(case):
    from solvor.milp import solve_milp
    A, b, c, ints = case["A"], case["b"], case["c"], case["ints"]
    n, m = len(c), len(b)
    events = []
    for cfg in case["configs"]:
        kw = dict(cfg)
        minimize = kw.pop("minimize")
        ws = kw.pop("warm", None)
        if ws is not None:
            kw["warm_start"] = ws
        try:
            r = solve_milp(list(map(float, c)) if case.get("floats") else list(c), [list(map(float, row)) if case.get("floats") else list(row) for row in A],
                           list(b), [j - 1 for j in ints], minimize=minimize, **kw)
            ev = {"e": "ret", "status": r.status.name, "minimize": minimize, "finite": True, "x": [0] * n, "obj6": 0, "sols": [], "cfg": str(cfg)}
            if r.solution is not None:
                vals = list(r.solution) + [float(r.objective)] + [v for s in (r.solutions or ()) for v in s]
                if not all(isinstance(v, (int, float)) and math.isfinite(v) and abs(v) < 1000 for v in vals):
                    ev["finite"] = False
                else:
                    ev["x"] = _x6(r.solution)
                    ev["obj6"] = int(round(float(r.objective) * 1000000))
                    ev["sols"] = [_x6(s) for s in (r.solutions or ())]
            events.append(ev)
        except Exception as ex:  # noqa: BLE001
            events.append({"e": "raise", "what": type(ex).__name__})
    return {"A": A, "b": b, "c": c, "n": n, "m": m, "ints": ints, "cv": case["cv"], "ub": case["ub"], "events": events, "input": case}


def gen(rng):
    n = rng.randint(1, 3)
    cv = rng.choice([0, 0, rng.randint(1, n)]) if n >= 2 else 0
    ints = [j for j in range(1, n + 1) if j != cv]
    shape = rng.random()
    binary = rng.random() < 0.4
    ub = [1 if binary else rng.randint(1, 4) for _ in range(n)]
    rows, rhs = [], []
    k = rng.randint(1, 3)
    for _ in range(k):
        if shape < 0.35:      # knapsack-like
            rows.append([rng.randint(1, 5) for _ in range(n)])
            rhs.append(rng.randint(1, 9))
        elif shape < 0.6:     # cover-like  (-a.x <= -d)
            rows.append([-rng.randint(0, 4) for _ in range(n)])
            rhs.append(-rng.randint(0, 5))
        else:
            rows.append([rng.randint(-4, 5) for _ in range(n)])
            rhs.append(rng.randint(-3, 8))
    explicit = rng.random() < 0.8 or not binary
    for j in range(n):        # explicit upper bounds (needed for finiteness; for binaries sometimes as x_j <= 1 rows)
        row = [0] * n
        row[j] = 1
        rows.append(row)
        rhs.append(ub[j])
    order = list(range(len(rows)))
    rng.shuffle(order)
    A = [rows[i] for i in order]
    b = [rhs[i] for i in order]
    c = [rng.randint(-5, 5) for _ in range(n)]
    feasible_guess = [min(ub[j], rng.randint(0, 2)) for j in range(n)]
    configs = []
    for minimize in (True, False):
        configs.append({"minimize": minimize})
        configs.append({"minimize": minimize, "heuristics": False})
        configs.append({"minimize": minimize, "warm": [float(v) for v in feasible_guess]})
        configs.append({"minimize": minimize, "warm": [0.5] * n})
        configs.append({"minimize": minimize, "warm": [0.0] * (n + 1)})
        configs.append({"minimize": minimize, "lns_iterations": 3, "seed": rng.randint(0, 99)})
        configs.append({"minimize": minimize, "solution_limit": 3})
    return {"A": A, "b": b, "c": c, "ints": ints, "cv": cv, "ub": ub, "configs": configs, "floats": rng.random() < 0.5}
