"""C04 driver: solve_milp on bounded integer-data instances under an option grid."""
import math
import random

from drivers.labels import cont_mode, seq1, seq2


def _x6(sol):
    return [int(round(v * 1000000)) for v in sol]


BIG = 1000000


def _b(v):
    if v == float("inf"):
        return BIG
    return int(round(v)) if abs(v - round(v)) < 1e-9 and abs(v) < BIG else -BIG     # -BIG marks a non-integral bound


def _o6(v):
    if not isinstance(v, (int, float)) or not math.isfinite(v):
        return 1000000000
    return max(-1000000000, min(1000000000, int(round(float(v) * 1000000))))


def _conv(ev):
    """hook event -> JSON record for MilpTrace (integers only)"""
    k = ev["e"]
    if k == "milp_incumbent":
        return {"e": k, "src": ev["src"], "x": [_o6(v) for v in ev["x"]], "obj6": _o6(ev["obj"])}
    if k == "milp_open_root":
        return {"e": k, "lower": [_b(v) for v in ev["lower"]], "upper": [_b(v) for v in ev["upper"]]}
    if k == "milp_node":
        r = {"e": k, "act": ev["act"], "lower": [_b(v) for v in ev["lower"]], "upper": [_b(v) for v in ev["upper"]]}
        if ev["act"] == "integral":
            r["x"] = [_o6(v) for v in ev["x"]]
            r["obj6"] = _o6(ev["obj"])
        if ev["act"] == "branch":
            r["var"] = ev["var"] + 1
            r["val6"] = _o6(ev["val"])
            r["left_upper"] = [_b(v) for v in ev["left_upper"]]
            r["right_lower"] = [_b(v) for v in ev["right_lower"]]
        return r
    if k == "milp_root_integral":
        return {"e": k, "src": "root", "x": [_o6(v) for v in ev["x"]], "obj6": _o6(ev["obj"])}
    if k == "milp_tighten_binary":
        return {"e": k}
    return None


def run_milp(case, A_obj=None):
    """every configuration is one call; its trace is: start, the branch-and-bound events of the call (hooks), ret.
    A_obj: the constraint matrix object to pass (call histories re-solving with the SAME matrix object and another right-hand side)"""
    from solvor import _verif
    from solvor.milp import solve_milp
    A, b, c, ints = case["A"], case["b"], case["c"], case["ints"]
    n, m = len(c), len(b)
    events = []
    tighten = False
    for cfg in case["configs"]:
        kw = dict(cfg)
        minimize = kw.pop("minimize")
        ws = kw.pop("warm", None)
        if ws is not None:
            kw["warm_start"] = ws
        events.append({"e": "start", "minimize": minimize})
        _verif.start()
        try:
            cm = cont_mode(case)
            r = solve_milp(seq1(list(map(float, c)) if case.get("floats") else list(c), cm),
                           A_obj if A_obj is not None else seq2([list(map(float, row)) if case.get("floats") else list(row) for row in A], cm),
                           seq1(b, cm), seq1([j - 1 for j in ints], cm), minimize=minimize, **kw)
            ev = {"e": "ret", "status": r.status.name, "minimize": minimize, "finite": True, "x": [0] * n, "obj6": 0, "sols": [], "cfg": str(cfg)}
            if r.solution is not None:
                vals = list(r.solution) + [float(r.objective)] + [v for s in (r.solutions or ()) for v in s]
                if not all(isinstance(v, (int, float)) and math.isfinite(v) and abs(v) < 1000 for v in vals):
                    ev["finite"] = False
                else:
                    ev["x"] = _x6(r.solution)
                    ev["obj6"] = int(round(float(r.objective) * 1000000))
                    ev["sols"] = [_x6(s) for s in (r.solutions or ())]
        except Exception as ex:  # noqa: BLE001
            ev = {"e": "raise", "what": type(ex).__name__}
        hooked, dropped = _verif.stop()
        if not dropped and len(hooked) <= 400:
            for h in hooked:
                tighten = tighten or h["e"] == "milp_tighten_binary"
                cvt = _conv(h)
                if cvt is not None:
                    events.append(cvt)
        events.append(ev)
    return {"A": A, "b": b, "c": c, "n": n, "m": m, "ints": ints, "cv": case["cv"], "ub": case["ub"], "events": events,
            "tighten": tighten, "input": case}


def gen(rng):
    n = rng.randint(1, 3)
    cv = rng.choice([0, 0, rng.randint(1, n)]) if n >= 2 else 0
    ints = [j for j in range(1, n + 1) if j != cv]
    shape = rng.random()
    binary = rng.random() < 0.4
    ub = [1 if binary else rng.randint(1, 4) for _ in range(n)]
    rows, rhs = [], []
    k = rng.randint(1, 3)
    for _ in range(k):
        if shape < 0.35:      # knapsack-like
            rows.append([rng.randint(1, 5) for _ in range(n)])
            rhs.append(rng.randint(1, 9))
        elif shape < 0.6:     # cover-like  (-a.x <= -d)
            rows.append([-rng.randint(0, 4) for _ in range(n)])
            rhs.append(-rng.randint(0, 5))
        else:
            rows.append([rng.randint(-4, 5) for _ in range(n)])
            rhs.append(rng.randint(-3, 8))
    if rng.random() < 0.35 and n >= 2:
        # near-miss bound rows: look like 'x_j <= 1' (rhs 1, coefficient +1 on an integer variable) but carry other terms,
        # with and without the real bound rows next to them (exercises the binary-detection special case)
        for j in ints:
            row = [0] * n
            row[j - 1] = 1
            others = [k for k in range(n) if k != j - 1]
            for k in rng.sample(others, rng.randint(1, len(others))):
                row[k] = rng.choice([-3, -2, -1, 1, 2])
            rows.append(row)
            rhs.append(1)
        ub = [rng.randint(2, 4) if j + 1 in ints else ub[j] for j in range(n)]
        binary = False
    explicit = rng.random() < 0.8 or not binary
    for j in range(n):        # explicit upper bounds (needed for finiteness; for binaries sometimes as x_j <= 1 rows)
        row = [0] * n
        row[j] = 1
        rows.append(row)
        rhs.append(ub[j])
    order = list(range(len(rows)))
    rng.shuffle(order)
    A = [rows[i] for i in order]
    b = [rhs[i] for i in order]
    c = [rng.randint(-5, 5) for _ in range(n)]
    feasible_guess = [min(ub[j], rng.randint(0, 2)) for j in range(n)]
    neg_warm = None
    if cv:
        # integral and >= 0 on the integer variables, satisfies the rows if any tried value does, negative on the continuous one
        for y in (-0.5, -1.0, -2.0, -3.0, -0.25):
            w = [float(v) for v in feasible_guess]
            w[cv - 1] = y
            neg_warm = neg_warm or w
            if all(sum(A[i][j] * w[j] for j in range(n)) <= b[i] for i in range(len(A))):
                neg_warm = w
                break
    configs = []
    for minimize in (True, False):
        configs.append({"minimize": minimize})
        configs.append({"minimize": minimize, "heuristics": False})
        if neg_warm:
            configs.append({"minimize": minimize, "warm": neg_warm})
        configs.append({"minimize": minimize, "warm": [float(v) for v in feasible_guess]})
        configs.append({"minimize": minimize, "warm": [0.5] * n})
        configs.append({"minimize": minimize, "warm": [0.0] * (n + 1)})
        configs.append({"minimize": minimize, "max_iter": rng.choice([1, 2, 4, 6, 8])})  # limits: MAX_ITER / FEASIBLE are fine,
        configs.append({"minimize": minimize, "max_nodes": rng.choice([1, 2]), "heuristics": rng.random() < 0.5})   # a wrong verdict is not
        configs.append({"minimize": minimize, "lns_iterations": 3, "seed": rng.randint(0, 99)})
        configs.append({"minimize": minimize, "solution_limit": 3})
        configs.append({"minimize": minimize, "solution_limit": 2})
        configs.append({"minimize": minimize, "solution_limit": 2, "warm": [float(v) for v in feasible_guess]})
    return {"A": A, "b": b, "c": c, "ints": ints, "cv": cv, "ub": ub, "configs": configs, "floats": rng.random() < 0.5}


def run_milp_history(case):
    """a budget sweep: the same model re-solved in one process with the SAME constraint-matrix object and other right-hand sides /
    objectives (what a user's parameter study does); every call is its own trace and has to be right on its own"""
    A_obj = [list(row) for row in case["A"]]
    out = []
    prev_b = list(case["b"])
    for var in case["variants"]:
        c2 = dict(case)
        c2.update(var)
        c2.pop("variants", None)
        if "cut" in var and out:
            # the budget of one resource row is cut just below what the previous answer uses (the sweep reacts to the last result)
            rets = [e for e in out[-1]["events"] if e["e"] == "ret" and e.get("finite") and e["status"] in ("OPTIMAL", "FEASIBLE")]
            b2 = list(prev_b)
            if rets:
                x = [v / 1000000 for v in rets[0]["x"]]
                q = var["cut"] % len(case["A"])
                use = int(round(sum(a * v for a, v in zip(case["A"][q], x))))
                b2[q] = max(0, min(b2[q], use - var.get("by", 1)))
            c2["b"] = b2
        prev_b = list(c2["b"])
        out.append(run_milp(c2, A_obj=A_obj))
        out[-1]["input"] = {"history": case, "index": len(out) - 1}
        if A_obj != [list(row) for row in case["A"]]:
            out[-1]["events"].append({"e": "raise", "what": "InputMatrixModified"})
            A_obj = [list(row) for row in case["A"]]
    return {"traces": out}


def gen_history(rng):
    """binary multi-resource knapsacks re-solved after budget changes (fixed ones and cuts just below the previous answer's usage)"""
    n = rng.randint(4, 6)
    nres = rng.randint(1, 3)
    rows = [[rng.randint(0, 9 if nres > 1 else 5) for _ in range(n)] for _ in range(nres)]
    rhs = [rng.randint(max(max(r), 1), max(max(r), 1, sum(r) * 2 // 3)) for r in rows]
    for j in range(n):
        row = [0] * n
        row[j] = 1
        rows.append(row)
        rhs.append(1)
    c = [rng.randint(1, 9) for _ in range(n)]
    seed = rng.randint(0, 3)
    variants = [{"b": list(rhs), "c": c}]
    for _ in range(rng.randint(1, 3)):
        if rng.random() < 0.7:
            variants.append({"cut": rng.randrange(nres), "by": rng.choice([1, 2, 3]), "c": c})
        else:
            b2 = list(rhs)
            q = rng.randrange(nres)
            b2[q] = max(1, rhs[q] + rng.choice([-3, -2, -1, 1, 2]))
            variants.append({"b": b2, "c": c if rng.random() < 0.7 else [rng.randint(1, 9) for _ in range(n)]})
    cfgs = [{"minimize": False, "lns_iterations": rng.choice([5, 10]), "seed": seed, "lns_destroy_frac": [0.1, 0.3, 0.6, 1.0][seed % 4]}]
    if rng.random() < 0.3:
        cfgs.append({"minimize": True, "lns_iterations": 3, "seed": seed})
    return {"A": rows, "b": rhs, "c": c, "ints": list(range(1, n + 1)), "cv": 0, "ub": [1] * n, "configs": cfgs, "floats": False, "variants": variants}


def gen_switch(rng):
    """the origin is feasible with objective exactly 0, gains need a 'switch' variable that costs something: x_j <= U*y, minimise
    y-cost minus gains (and the mirrored maximisation) - branching on the switch yields an integral node of objective 0 while a
    sibling still holds strictly better points"""
    k = rng.randint(1, 2)
    n = k + 1                       # variable 1 is the switch y, the others are the gated x_j
    U = rng.randint(1, 3)
    rows, rhs = [], []
    for j in range(1, n):
        row = [0] * n
        row[0], row[j] = -rng.randint(U, U + 2), 1         # x_j - M*y <= 0
        rows.append(row)
        rhs.append(0)
        row = [0] * n
        row[j] = 1
        rows.append(row)
        rhs.append(U)
    row = [0] * n
    row[0] = 1
    rows.append(row)
    rhs.append(1)
    c = [rng.randint(0, 2)] + [-rng.randint(1, 3) for _ in range(k)]
    order = list(range(len(rows)))
    rng.shuffle(order)
    A = [rows[i] for i in order]
    b = [rhs[i] for i in order]
    cv = rng.choice([0, 0, rng.randint(2, n)])
    ints = [j for j in range(1, n + 1) if j != cv]
    configs = []
    for heur in (True, False):
        configs.append({"minimize": True, "heuristics": heur})
        configs.append({"minimize": True, "heuristics": heur, "warm": [0.5] * n})
        configs.append({"minimize": True, "heuristics": heur, "lns_iterations": 3, "seed": 1})
    case = {"A": A, "b": b, "c": c, "ints": ints, "cv": cv, "ub": [1] + [U] * k, "configs": configs, "floats": rng.random() < 0.5}
    if rng.random() < 0.5:          # the mirror image: maximise the negated objective
        case["c"] = [-v for v in c]
        for cfg in configs:
            cfg["minimize"] = False
    return case


def gen_genint(rng):
    """a general integer variable that a >=-type row keeps at 2 or more (integral at the LP root) next to 0/1 variables that are
    fractional there: heuristics that treat "the values to be rounded" as a 0/1 vector must not touch the large one"""
    nb = rng.randint(1, 2)                      # 0/1 variables
    n = 2 + nb                                  # x1 = general integer, x2 = continuous or integer helper, then the 0/1 ones
    k = rng.randint(2, 3)
    U = k + rng.randint(0, 2)
    a = [rng.randint(2, 4) for _ in range(nb)]
    rows = [[1, 0] + a, [-1, rng.randint(1, 4)] + [0] * nb]
    rhs = [k + rng.randint(1, max(1, sum(a) - 1)), -k]
    ub = [U, 2] + [1] * nb
    for j in range(n):
        row = [0] * n
        row[j] = 1
        rows.append(row)
        rhs.append(ub[j])
    c = [rng.randint(0, 2), rng.randint(0, 2)] + [-rng.randint(2, 6) for _ in range(nb)]
    order = list(range(len(rows)))
    rng.shuffle(order)
    cv = rng.choice([2, 2, 0])
    ints = [j for j in range(1, n + 1) if j != cv]
    configs = [{"minimize": True}, {"minimize": True, "lns_iterations": 3, "seed": 2}, {"minimize": True, "warm": [0.5] * n},
               {"minimize": True, "solution_limit": 2}, {"minimize": True, "heuristics": False}]
    case = {"A": [rows[i] for i in order], "b": [rhs[i] for i in order], "c": c, "ints": ints, "cv": cv, "ub": ub, "configs": configs,
            "floats": rng.random() < 0.5}
    if rng.random() < 0.4:
        case["c"] = [-v for v in c]
        for cfg in configs:
            cfg["minimize"] = False
    return case


def gen_stair(rng):
    """two general integers coupled by a x - b y <= r with y capped at a non-integer s / k: the LP optimum stays fractional through
    several branchings, so one variable ends up with a branch lower bound AND a branch upper bound (a window lo..hi, lo >= 1)"""
    a, b = rng.choice([3, 4, 5, 6]), rng.choice([2, 3, 4])
    r = rng.randint(2, 9)
    k = rng.choice([2, 3, 4])
    ymax = rng.randint(3, 8)
    s = k * ymax + rng.randint(1, k - 1)
    rows, rhs = [[a, -b], [0, k]], [r, s]
    xub = (r + b * ymax) // a + 1
    rows += [[1, 0], [0, 1]]
    rhs += [xub, 8]
    if rng.random() < 0.5:
        rows.append([rng.randint(1, 3), rng.randint(1, 3)])
        rhs.append(rng.randint(8, 30))
    c = [rng.choice([2, 3, 1]), rng.choice([0, 0, 1, -1])]
    order = list(range(len(rows)))
    if rng.random() < 0.5:
        rng.shuffle(order)
    configs = [{"minimize": False}, {"minimize": False, "heuristics": False}, {"minimize": False, "solution_limit": 2},
               {"minimize": False, "lns_iterations": 3, "seed": 1}]
    return {"A": [rows[i] for i in order], "b": [rhs[i] for i in order], "c": c, "ints": [1, 2], "cv": 0, "ub": [xub, 8], "configs": configs,
            "floats": rng.random() < 0.5}


def gen_pairrows(rng):
    """binaries with explicit x_j <= 1 rows (so bounds are tightened and up-branches FIX variables at 1), rows that involve only
    two of the integer variables with a fractional LP optimum, and at least one more variable that stays free meanwhile"""
    ni = rng.randint(3, 4)
    cont = rng.random() < 0.3
    n = ni + (1 if cont else 0)
    rows, rhs = [], []
    for _ in range(rng.randint(1, 2)):
        i, j = rng.sample(range(ni), 2)
        row = [0] * n
        row[i], row[j] = rng.randint(1, 3), rng.randint(1, 3)
        rows.append(row)
        rhs.append(rng.randint(1, row[i] + row[j] - 1))
    if rng.random() < 0.5:
        rows.append([rng.randint(0, 3) for _ in range(n)])
        rhs.append(rng.randint(2, 6))
    ub = [1] * ni + ([rng.randint(1, 3)] if cont else [])
    for j in range(n):
        row = [0] * n
        row[j] = 1
        rows.append(row)
        rhs.append(ub[j])
    order = list(range(len(rows)))
    rng.shuffle(order)
    c = [rng.randint(1, 6) for _ in range(n)]
    cfgs = []
    for minimize in (False, True):
        cfgs += [{"minimize": minimize}, {"minimize": minimize, "heuristics": False}, {"minimize": minimize, "solution_limit": 2}]
    cc = c if rng.random() < 0.8 else [-v for v in c]
    return {"A": [rows[i] for i in order], "b": [rhs[i] for i in order], "c": cc, "ints": list(range(1, ni + 1)), "cv": n if cont else 0,
            "ub": ub, "configs": cfgs, "floats": rng.random() < 0.5}


def gen_nearmiss(rng):
    """two or three integer variables plus one continuous one; every integer variable has a row that looks like x_j <= 1
    (rhs 1, coefficient +1) but also involves the continuous variable; real upper bounds are larger"""
    ni = rng.randint(2, 3) if rng.random() < 0.8 else 1
    n = ni + 1
    cv = n
    ints = list(range(1, ni + 1))
    ub = [rng.randint(2, 3) for _ in range(ni)] + [rng.randint(1, 3)]
    rows, rhs = [], []
    for j in range(ni):
        row = [0] * n
        row[j] = 1
        row[cv - 1] = rng.choice([-3, -2, -1, -1, 1, 2])
        rows.append(row)
        rhs.append(1)
    for _ in range(rng.randint(1, 2)):
        rows.append([rng.randint(0, 4) for _ in range(ni)] + [rng.randint(-1, 2)])
        rhs.append(rng.randint(1, 6))
    for j in range(n):
        row = [0] * n
        row[j] = 1
        rows.append(row)
        rhs.append(ub[j])
    order = list(range(len(rows)))
    rng.shuffle(order)
    c = [rng.randint(-6, 2) for _ in range(ni)] + [rng.randint(0, 5)]
    return {"A": [rows[i] for i in order], "b": [rhs[i] for i in order], "c": c, "ints": ints, "cv": cv, "ub": ub,
            "configs": [{"minimize": True}, {"minimize": False}, {"minimize": True, "heuristics": False}], "floats": False}


def run_milp_bulk(case):
    """Coverage-directed generation: many near-miss instances; executions in which the binary-tightening action fires (rare
    on this family) are all kept, the rest is sampled.  Only kept executions go to TLC."""
    rng = random.Random(case["seed"])
    kept, cov = [], {"instances": 0, "tighten_binary_fired": 0, "sampled": 0}
    for _ in range(case["count"]):
        c = gen_nearmiss(rng)
        tr = run_milp(c)
        fired = tr.pop("tighten")
        cov["instances"] += 1
        cov["tighten_binary_fired"] += fired
        if fired or rng.random() < 0.03:
            cov["sampled"] += 1
            tr["coverage"] = "TightenBinary" if fired else "sample"
            kept.append(tr)
    return {"kept": kept, "cov": cov}
