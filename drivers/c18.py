"""C18 driver: job-shop schedules; VRP operator applications (wrapped by name) and solve_vrptw results."""
import random

OPS = {"random_removal": "destroy", "worst_removal": "destroy", "related_removal": "destroy", "route_removal": "destroy",
       "sync_removal": "destroy", "greedy_insertion": "repair", "regret_insertion": "repair", "sync_aware_insertion": "repair"}


def run_jobshop(case):
    from solvor.job_shop import solve_job_shop
    jobs = [[tuple(op) for op in job] for job in case["jobs"]]
    events = []
    for cfg in case["configs"]:
        try:
            r = solve_job_shop(jobs, **cfg)
            sched = r.solution
            items = sorted([int(j), int(o), s, e] for (j, o), (s, e) in sched.items())
            if not all(type(x) is int for it in items for x in it):
                events.append({"e": "raise", "what": "non_integer_time"})
                continue
            o = float(r.objective)
            events.append({"e": "ret", "status": r.status.name, "schedule": items, "obj": int(round(o)), "exact": abs(o - round(o)) < 1e-9, "cfg": str(cfg)})
        except Exception as ex:  # noqa: BLE001
            events.append({"e": "raise", "what": type(ex).__name__})
    return {"kind": "jobshop", "jobs": case["jobs"], "cust": [], "dist": [], "cap": [], "events": events, "input": case}


def _proj_state(st):
    exact = True
    arr = []
    for a in st.arrival_times:
        row = []
        for t in a:
            exact = exact and abs(t - round(t)) < 1e-9
            row.append(int(round(t)))
        arr.append(row)
    return {"routes": [list(r) for r in st.routes], "unassigned": sorted(st.unassigned), "arrival": arr, "exact": exact}


def run_vrp(case):
    """case: customers [(x, demand, tws, twe, svc, req)] on a line, vehicles, capacity, seed, mode"""
    import solvor.vrp as vrp
    from random import Random
    dx = case.get("depot_x", 0)
    xs = [dx] + [c[0] for c in case["customers"]]
    custs = [{"req": c[5], "tws": c[2], "twe": c[3] if c[3] is not None else 1000000, "svc": c[4], "dem": c[1]} for c in case["customers"]]
    dist = [[abs(a - b) for b in xs] for a in xs]
    events = []
    orig = {name: getattr(vrp, name) for name in OPS}

    def wrap(name):
        f = orig[name]

        def g(state, rng, *a, **k):
            before = _proj_state(state)
            out = f(state, rng, *a, **k)
            if len(events) < 400:
                events.append({"e": "op", "op": name, "role": OPS[name], "before": before, "after": _proj_state(out)})
            return out
        return g
    for name in OPS:
        setattr(vrp, name, wrap(name))
    try:
        customers = [(i + 1, float(c[0]), 0.0, float(c[1]), float(c[2]), float(c[3]) if c[3] is not None else float("inf"), float(c[4]), c[5])
                     for i, c in enumerate(case["customers"])]
        if "prev_depot_x" in case:
            # the same customers were solved from another depot earlier in this process (a depot-location study): nothing of that may linger
            try:
                vrp.solve_vrptw(customers, case["vehicles"], depot=(float(case["prev_depot_x"]), 0.0), vehicle_capacity=float(case["capacity"]), max_iter=0, seed=0)
            except Exception:  # noqa: BLE001
                pass
            del events[:]            # the earlier call is not part of this trace
        if case["mode"] == "solve":
            wk = {}
            if case.get("weights"):          # non-default weights of the documented sum (small integers)
                dw, vw, tw, cp, sp = case["weights"]
                wk = {"distance_weight": float(dw), "vehicle_weight": float(vw), "tw_penalty": float(tw), "capacity_penalty": float(cp), "sync_penalty": float(sp)}
            stop_at = case.get("stop_at")
            pk = {"on_progress": (lambda p: p.iteration >= stop_at), "progress_interval": 1} if stop_at else {}
            r = vrp.solve_vrptw(customers, case["vehicles"], depot=(float(dx), 0.0), vehicle_capacity=float(case["capacity"]), max_iter=case.get("max_iter", 60),
                                max_no_improve=case.get("max_iter", 60), seed=case["seed"], **pk, **wk)
            st = _proj_state(r.solution)
            o = float(r.objective)
            events.append({"e": "result", "status": r.status.name, "state": st, "obj": int(round(o)), "exact": abs(o - round(o)) < 1e-6 and st["exact"]})
        else:
            # driver-chosen operator sequence (e.g. from a TLC behaviour of Vrp.tla) on an explicit state
            cl = [vrp.Customer(0, float(dx), 0.0)] + [vrp.Customer(c[0], c[1], c[2], c[3], c[4], c[5], c[6], c[7]) for c in customers]
            state = vrp.VRPState.from_problem(cl, [vrp.Vehicle(i, float(case["capacity"])) for i in range(case["vehicles"])])
            rng = Random(case["seed"])
            for name in case["sequence"]:
                state = getattr(vrp, name)(state, rng)
    except Exception as ex:  # noqa: BLE001
        events.append({"e": "raise", "what": type(ex).__name__})
    finally:
        for name in OPS:
            setattr(vrp, name, orig[name])
    return {"kind": "vrp", "jobs": [], "cust": custs, "dist": dist, "cap": [case["capacity"]] * case["vehicles"], "events": events, "input": case,
            "w": list(case.get("weights") or [1, 0, 1000, 1000, 10000])}


# ------------------------------------------------------------------ generators
def gen_jobshop(rng):
    nj = rng.randint(1, 4)
    nm = rng.randint(1, 3)
    jobs = []
    ids = list(range(nm + 1)) if rng.random() < 0.7 else sorted(rng.sample(range(12), nm + 1))     # any machine indices: gaps too
    for _ in range(nj):
        k = rng.randint(1, 4)
        jobs.append([[ids[rng.randrange(nm + (1 if rng.random() < 0.2 else 0))], rng.choice([0, 1, 1, 2, 3, 5])] for _ in range(k)])
    configs = []
    for rule in ("spt", "lpt", "fifo", "mwkr", "random"):
        configs.append({"rule": rule, "local_search": False, "seed": rng.randint(0, 999)})
        configs.append({"rule": rule, "local_search": True, "max_iter": rng.choice([0, 1, 5, 40]), "seed": rng.randint(0, 999)})
    return {"jobs": jobs, "configs": configs}


def gen_vrp_tight(rng, mode="solve"):
    """mostly multi-vehicle customers with tight capacity: placements fail, customers get removed and re-inserted often"""
    n = rng.randint(3, 6)
    customers = []
    for i in range(n):
        tws = rng.choice([0, 0, rng.randint(0, 10)])
        customers.append([rng.randint(-10, 10), rng.randint(1, 4), tws, None if rng.random() < 0.5 else tws + rng.randint(5, 40), rng.randint(0, 2),
                          2 if rng.random() < 0.7 else 1])
    veh = rng.choice([2, 2, 3, 3, 4])
    total = sum(c[1] * c[5] for c in customers)
    cap = max(4, int(total / veh * rng.choice([0.6, 0.8, 1.0, 1.3])))
    case = {"customers": customers, "vehicles": veh, "capacity": cap, "seed": rng.randint(0, 10 ** 6), "mode": mode, "max_iter": rng.choice([0, 1, 150, 150, 150])}
    if mode == "solve" and case["max_iter"] > 1 and rng.random() < 0.5:
        case["stop_at"] = rng.choice([3, 5, 8, 13, 21, 40, 70])   # the progress callback asks to stop while the walk is away from the best state
    if mode == "sequence":
        names = list(OPS)
        case["sequence"] = ["sync_aware_insertion"] + [rng.choice(names) for _ in range(rng.randint(6, 16))]
    return case


def _with_weights(case, rng):
    """non-default weights of the documented sum, pairwise different, and windows some customers cannot meet (their lateness makes the
    time-window weight visible in the objective of the returned state)"""
    case["weights"] = [rng.choice([1, 2]), rng.choice([0, 0, 5, 50]), rng.choice([10, 50, 700]), rng.choice([7, 300, 2000]), rng.choice([100, 10000])]
    dx = case.get("depot_x", 0)
    for c in case["customers"]:
        if rng.random() < 0.7:
            # reachable in time when served first, but any customer inserted ahead of it (insertion checks only the inserted one) makes it late
            c[2], c[3], c[4] = 0, abs(c[0] - dx) + rng.randint(0, 3), rng.randint(2, 5)
    return case


def gen_vrp_stop(rng):
    """7-9 serviceable customers, three vehicles with room to spare: the annealing walk of the adaptive search keeps leaving the best
    state it has seen, and the progress callback asks to stop somewhere along the way"""
    n = rng.randint(7, 9)
    customers = [[rng.randint(-20, 20), rng.randint(1, 4), 0, None if rng.random() < 0.6 else rng.randint(30, 80), rng.randint(0, 2), 1] for _ in range(n)]
    case = {"customers": customers, "vehicles": 3, "capacity": rng.choice([12, 15, 100]), "seed": rng.randint(0, 10 ** 6), "mode": "solve",
            "max_iter": 80, "stop_at": rng.randint(3, 60), "depot_x": rng.choice([0, 0, rng.randint(-10, 10)])}
    return _with_weights(case, rng) if rng.random() < 0.4 else case


def gen_vrp(rng, mode="solve"):
    if mode == "solve" and rng.random() < 0.25:
        return gen_vrp_stop(rng)
    if rng.random() < 0.45:
        return gen_vrp_tight(rng, mode)
    n = rng.randint(2, 7)
    customers = []
    nsync = 0
    for i in range(n):
        x = rng.randint(-12, 12)
        tws = rng.choice([0, 0, rng.randint(0, 15)])
        twe = None if rng.random() < 0.3 else tws + rng.randint(3, 40)
        req = 2 if (rng.random() < 0.25 and nsync < 2) else 1
        nsync += req == 2
        customers.append([x, rng.randint(0, 4), tws, twe, rng.randint(0, 3), req])
    case = {"customers": customers, "vehicles": rng.choice([1, 2, 2, 3, 3, 4]), "capacity": rng.choice([5, 8, 100]), "seed": rng.randint(0, 10 ** 6), "mode": mode}
    if mode == "solve" and rng.random() < 0.5:
        case["stop_at"] = rng.choice([2, 4, 6, 9, 15, 25])        # the progress callback asks to stop
    if mode == "solve" and rng.random() < 0.35:
        _with_weights(case, rng)
    if rng.random() < 0.4:
        case["depot_x"] = rng.randint(-15, 15)
        if rng.random() < 0.6:
            case["prev_depot_x"] = rng.choice([0, case["depot_x"] + rng.choice([-9, 7, 20])])
    if mode == "sequence":
        names = list(OPS)
        seq = ["greedy_insertion"]
        for _ in range(rng.randint(3, 10)):
            seq.append(rng.choice(names))
        case["sequence"] = seq
    return case
