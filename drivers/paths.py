"""C11 driver: every path solver on the same graph / grid -> trace for PathsTrace.tla.

Graph case: {"n", "edges": [[u,v,w]...] (integer w), "wscale": 1|4 (real weight = w / wscale), "labels": kind,
"queries": [[src, dst]...]}.  Distances are projected to integers in units of 1/wscale (exact flag otherwise).
"""
from drivers.labels import FreshList
import math
import random

INF = float("inf")


def _label(kind, i):
    if kind == "str":
        return "n%d" % i
    if kind == "tuple":
        return (i // 3, i % 3, "x")
    if kind == "neg":
        return -i * 7 - 1
    if kind == "big":        # beyond CPython's small-int cache: equal labels are separate objects
        return 1000 + i
    if kind == "none":       # None is a hashable label like any other (a virtual super-source, a missing key): as source and on the way
        return [("a",), None, "b", 0, "c", 1, "d", 2, "e", 3, "f", 4][i] if i < 12 else ("n", i)
    if kind == "odd":        # falsy and mutually unorderable labels (None is left out: goal=None means "explore everything" in bfs/dfs)
        odd = ["", 0, (), 1.5, frozenset(), b"", ("t",), -1, "x", 7, (0, 0), 2.5]
        return odd[i] if i < len(odd) else ("odd", i)
    return i


def _proj(x, scale):
    """float distance -> (int in units of 1/scale, exact?)"""
    if x == INF or x == -INF or x != x:
        return -1, True
    v = x * scale
    r = round(v)
    return int(r), abs(v - r) <= 1e-9 and abs(r) < 10 ** 7


def _ev_target(solver, src, goals, res, lab2id, scale, max_cost=-1, max_iter=-1):
    ev = {"e": "ret", "solver": solver, "mode": "target", "src": src, "goals": sorted(goals), "status": res.status.name,
          "max_cost": max_cost, "max_iter": max_iter, "has_path": res.solution is not None, "path": [], "obj": -1, "exact": True}
    if res.solution is not None:
        try:
            ev["path"] = [lab2id[x] for x in res.solution]
        except Exception:  # noqa: BLE001
            return {"e": "raise", "solver": solver, "what": "path_with_unknown_node"}
        ev["obj"], ev["exact"] = _proj(float(res.objective), scale)
    return ev


def _guard(solver, fn):
    try:
        return fn()
    except Exception as ex:  # noqa: BLE001
        return {"e": "raise", "solver": solver, "what": type(ex).__name__}


def _bf_py(n, edges, src):
    d = [INF] * n
    d[src] = 0.0
    for _ in range(n):
        ch = False
        for u, v, w in edges:
            if d[u] + w < d[v]:
                d[v] = d[u] + w
                ch = True
        if not ch:
            break
    return d


def run_settle(case):
    """Step level: the `settle` hook events (node taken off the frontier + its label) of dijkstra / astar calls"""
    from solvor import _verif
    from solvor.a_star import astar
    from solvor.dijkstra import dijkstra
    n, scale, kind = case["n"], case.get("wscale", 1), case.get("labels", "int")
    E = [(u, v, w / scale) for u, v, w in case["edges"]]
    if any(w < 0 for _, _, w in E):
        return {"skipped": True}
    labs = FreshList(_label(kind, i) for i in range(n))
    lab2id = {lb: i for i, lb in enumerate(labs)}
    adj = {lb: [] for lb in labs}
    for u, v, w in E:
        adj[labs[u]].append((labs[v], w))
    rev = [(v, u, w) for u, v, w in E]
    total = sum(abs(w) for _, _, w in E) + 1.0
    calls = []

    def record(solver, src, fn):
        _verif.start()
        try:
            fn()
        except Exception:  # noqa: BLE001
            pass
        events, dropped = _verif.stop()
        st = [e for e in events if e["e"] == "settle" and e["solver"] == solver]
        if dropped or not st:
            return
        proj = [_proj(float(e["label"]), scale) for e in st]
        calls.append({"solver": solver, "src": src, "settled": [[lab2id.get(e["node"], -1), p[0]] for e, p in zip(st, proj)],
                      "exact": all(p[1] for p in proj)})
    for q in case["queries"][:3]:
        src, dst = q[0], q[1]
        record("dijkstra", src, lambda: dijkstra(labs[src], labs[dst], lambda s: adj[s]))
        record("dijkstra", src, lambda: dijkstra(labs[src], lambda s: False, lambda s: adj[s]))      # settles everything reachable
        dg = _bf_py(n, rev, dst)
        h = {labs[i]: (0.5 * dg[i] if dg[i] < INF else 0.5 * total) for i in range(n)}
        record("astar", src, lambda: astar(labs[src], labs[dst], lambda s: adj[s], lambda s: h[s]))
        record("astar", src, lambda: astar(labs[src], lambda s: False, lambda s: adj[s], lambda s: 0.0))
    if not calls:
        return {"skipped": True}
    return {"n": n, "edges": [[u, v, w] for u, v, w in case["edges"]], "calls": calls, "input": case}


def run_graph(case):
    from solvor.a_star import astar
    from solvor.bellman_ford import bellman_ford
    from solvor.bfs import bfs, bfs_edges, dfs, dfs_edges
    from solvor.dijkstra import dijkstra, dijkstra_edges
    from solvor.floyd_warshall import floyd_warshall
    n, scale, kind = case["n"], case.get("wscale", 1), case.get("labels", "int")
    E = [(u, v, w / scale) for u, v, w in case["edges"]]
    labs = FreshList(_label(kind, i) for i in range(n))
    lab2id = {lb: i for i, lb in enumerate(labs)}
    adj = {lb: [] for lb in labs}
    for u, v, w in E:
        adj[labs[u]].append((labs[v], w))
    nonneg = all(w >= 0 for _, _, w in E)
    events = []
    total = sum(abs(w) for _, _, w in E) + 1.0
    rev = [(v, u, w) for u, v, w in E]
    for q in case["queries"]:
        src, dst = q[0], q[1]
        G = lambda i: labs[i] if labs[i] is not None else (lambda s: s is None)  # noqa: E731  (a goal of None means "explore everything")
        goals = [dst] if len(q) < 3 else sorted(set(q[2]))
        gl = {labs[g] for g in goals}
        pred = (lambda s, gl=gl: s in gl)
        nb_w = lambda s: adj[s]  # noqa: E731
        nb_u = lambda s: [t for t, _ in adj[s]]  # noqa: E731
        if nonneg:
            events.append(_guard("dijkstra", lambda: _ev_target("dijkstra", src, [dst], dijkstra(labs[src], G(dst), nb_w), lab2id, scale)))
            events.append(_guard("dijkstra", lambda: _ev_target("dijkstra", src, goals, dijkstra(labs[src], pred, nb_w), lab2id, scale)))
            # consistent heuristic: half the true remaining distance (dead ends get a large constant)
            best = [INF] * n
            for g in goals:
                dg = _bf_py(n, rev, g)
                best = [min(a, b) for a, b in zip(best, dg)]
            h = {labs[i]: (0.5 * best[i] if best[i] < INF else 0.5 * total) for i in range(n)}
            events.append(_guard("astar", lambda: _ev_target("astar", src, goals, astar(labs[src], pred, nb_w, lambda s: h[s]), lab2id, scale)))
            events.append(_guard("astar", lambda: _ev_target("astar", src, [dst], astar(labs[src], G(dst), nb_w, lambda s: 0.0), lab2id, scale)))
            if len(q) > 3:
                mc = q[3]
                events.append(_guard("dijkstra", lambda: _ev_target("dijkstra", src, [dst], dijkstra(labs[src], G(dst), nb_w, max_cost=mc / scale), lab2id, scale, mc)))
                events.append(_guard("astar", lambda: _ev_target("astar", src, [dst], astar(labs[src], G(dst), nb_w, lambda s: 0.0, max_cost=mc / scale), lab2id, scale, mc)))
            events.append(_guard("dijkstra_edges", lambda: _ev_target("dijkstra_edges", src, [dst], dijkstra_edges(n, E, src, target=dst, backend="python"), {i: i for i in range(n)}, scale)))

            def _all_dij():
                r = dijkstra_edges(n, E, src, backend="python")
                pr = [(k, _proj(float(v), scale)) for k, v in r.solution.items()]
                return {"e": "ret", "solver": "dijkstra_edges", "mode": "all", "src": src, "status": r.status.name,
                        "dists": sorted([k, p[0]] for k, p in pr), "exact": all(p[1] for _, p in pr)}
            events.append(_guard("dijkstra_edges", _all_dij))
        # iteration limits: any answer other than MAX_ITER must still be right
        for mi in case.get("max_iters", (1, 2, 4)):
            if nonneg:
                events.append(_guard("dijkstra", lambda: _ev_target("dijkstra", src, [dst], dijkstra(labs[src], G(dst), nb_w, max_iter=mi), lab2id, scale, max_iter=mi)))
                events.append(_guard("astar", lambda: _ev_target("astar", src, [dst], astar(labs[src], G(dst), nb_w, lambda s: 0.0, max_iter=mi), lab2id, scale, max_iter=mi)))
            events.append(_guard("bfs", lambda: _ev_target("bfs", src, [dst], bfs(labs[src], G(dst), nb_u, max_iter=mi), lab2id, 1, max_iter=mi)))
            events.append(_guard("dfs", lambda: _ev_target("dfs", src, [dst], dfs(labs[src], G(dst), nb_u, max_iter=mi), lab2id, 1, max_iter=mi)))
        events.append(_guard("bfs", lambda: _ev_target("bfs", src, goals, bfs(labs[src], pred, nb_u), lab2id, 1)))
        events.append(_guard("bfs", lambda: _ev_target("bfs", src, [dst], bfs(labs[src], G(dst), nb_u), lab2id, 1)))
        events.append(_guard("dfs", lambda: _ev_target("dfs", src, [dst], dfs(labs[src], G(dst), nb_u), lab2id, 1)))
        EU = [(u, v) for u, v, _ in E]
        events.append(_guard("bfs_edges", lambda: _ev_target("bfs_edges", src, [dst], bfs_edges(n, EU, src, target=dst, backend="python"), {i: i for i in range(n)}, 1)))
        events.append(_guard("dfs_edges", lambda: _ev_target("dfs_edges", src, [dst], dfs_edges(n, EU, src, target=dst, backend="python"), {i: i for i in range(n)}, 1)))

        def _reach(name, fn):
            r = fn(n, EU, src, backend="python")
            return {"e": "ret", "solver": name, "mode": "reach", "src": src, "status": r.status.name, "nodes": [int(x) for x in r.solution]}
        events.append(_guard("bfs_edges", lambda: _reach("bfs_edges", bfs_edges)))
        events.append(_guard("dfs_edges", lambda: _reach("dfs_edges", dfs_edges)))

        def _bfs_all():
            r = bfs(labs[src], None, nb_u)
            return {"e": "ret", "solver": "bfs", "mode": "reach", "src": src, "status": r.status.name, "nodes": sorted(lab2id[x] for x in r.solution)}
        events.append(_guard("bfs", _bfs_all))
        events.append(_guard("bellman_ford", lambda: _ev_target("bellman_ford", src, [dst], bellman_ford(src, E, n, target=dst, backend="python"), {i: i for i in range(n)}, scale)))

        def _all_bf():
            r = bellman_ford(src, E, n, backend="python")
            ev = {"e": "ret", "solver": "bellman_ford", "mode": "all", "src": src, "status": r.status.name, "dists": [], "exact": True}
            if r.solution is not None:
                pr = [(k, _proj(float(v), scale)) for k, v in r.solution.items()]
                ev["dists"] = sorted([k, p[0]] for k, p in pr)
                ev["exact"] = all(p[1] for _, p in pr)
            return ev
        events.append(_guard("bellman_ford", _all_bf))
    for directed in (True, False):
        def _fw(directed=directed):
            r = floyd_warshall(n, E, directed=directed, backend="python")
            ev = {"e": "ret", "solver": "floyd_warshall", "mode": "fw", "src": 0, "directed": directed, "status": r.status.name,
                  "matrix": [], "exact": True}
            if r.solution is not None:
                pr = [[_proj(float(x), scale) for x in row] for row in r.solution]
                ev["matrix"] = [[p[0] for p in row] for row in pr]
                ev["exact"] = all(p[1] for row in pr for p in row)
            return ev
        events.append(_guard("floyd_warshall", _fw))
    return {"kind": "graph", "n": n, "edges": [list(e) for e in case["edges"]], "events": events, "input": case}


def run_grid(case):
    from solvor.a_star import astar_grid
    grid = case["grid"]
    events = []
    for h in case["heuristics"]:
        def _one(h=h):
            kw = {"directions": case["directions"], "heuristic": h}
            if case.get("costs"):
                kw["costs"] = {int(k): float(v) for k, v in case["costs"]}
            if case.get("blocked") != [1]:
                kw["blocked"] = set(case["blocked"]) if len(case["blocked"]) != 1 else case["blocked"][0]
            r = astar_grid(grid, tuple(case["start"]), tuple(case["goal"]), **kw)
            ev = {"e": "ret", "solver": "astar_grid:" + h, "status": r.status.name, "path": [], "obj6": -1}
            if r.solution is not None:
                ev["path"] = [[int(a), int(b)] for a, b in r.solution]
                ev["obj6"] = int(round(float(r.objective) * 1000000))
            return ev
        events.append(_guard("astar_grid:" + h, _one))
    return {"kind": "grid", "grid": grid, "directions": case["directions"], "start": case["start"], "goal": case["goal"],
            "blocked": case["blocked"], "costs": case.get("costs") or [], "events": events, "input": case}


# ------------------------------------------------------------------ generators
def gen_late_shortcut(rng):
    """a path whose arcs are listed from the far end backwards, plus a dear direct arc from the source into its middle: every round of
    Bellman-Ford moves the improvement one arc further through parents that do not change"""
    k = rng.randint(4, 7)
    nodes = list(range(k + 1))
    path = [0] + rng.sample(nodes[1:], k)
    arcs = [[a, b, rng.randint(1, 2)] for a, b in zip(path, path[1:])]
    arcs.reverse()
    j = rng.randint(1, k - 2)
    arcs.insert(rng.randint(0, len(arcs)), [0, path[j + 1], sum(a[2] for a in arcs) + rng.randint(1, 4)])
    if rng.random() < 0.4:
        arcs.append([0, path[1], 0])                # duplicate arc, cheaper
    qs = [[0, path[-1], [path[-1]]], [0, path[k // 2], [path[k // 2]]]]
    return {"n": k + 1, "edges": arcs, "wscale": 1, "labels": rng.choice(["int", "str", "big"]), "queries": qs}


def gen_graph(rng, nmax=9, small=False):
    if not small and rng.random() < 0.07:
        return gen_late_shortcut(rng)
    n = rng.randint(1, 4 if small else nmax)
    neg = rng.random() < 0.35
    dens = rng.choice([0.15, 0.3, 0.5])
    scale = rng.choice([1, 1, 4])
    edges = []
    for u in range(n):
        for v in range(n):
            if rng.random() < dens:
                k = 1 if rng.random() < 0.8 else 2            # duplicate edges with different weights
                for _ in range(k):
                    w = rng.randint(-3 if neg else 0, 9) if rng.random() < 0.8 else 0
                    edges.append([u, v, w])
    rng.shuffle(edges)
    qs = []
    for _ in range(2):
        s, t = rng.randrange(n), rng.randrange(n)
        q = [s, t, sorted({t, rng.randrange(n)})]
        if rng.random() < 0.5:
            q.append(rng.randint(0, 12))
        qs.append(q)
    return {"n": n, "edges": edges, "wscale": scale, "labels": rng.choice(["int", "str", "tuple", "neg", "odd", "big", "none"]), "queries": qs}


def gen_grid(rng, rmax=7, cmax=7):
    R, C = rng.randint(1, rmax), rng.randint(1, cmax)
    p = rng.choice([0.15, 0.3, 0.45])
    terrain = rng.random() < 0.3
    grid = [[(1 if rng.random() < p else (rng.choice([0, 2, 3]) if terrain else 0)) for _ in range(C)] for _ in range(R)]
    s = [rng.randrange(R), rng.randrange(C)]
    g = [rng.randrange(R), rng.randrange(C)]
    grid[s[0]][s[1]] = 0
    if rng.random() < 0.9:
        grid[g[0]][g[1]] = 0
    d = rng.choice([4, 8])
    hs = ["auto", "euclidean", "chebyshev"] + (["manhattan", "octile"] if d == 4 else ["octile"])
    return {"grid": grid, "start": s, "goal": g, "directions": d, "heuristics": hs, "blocked": [1],
            "costs": [[2, 2], [3, 5]] if terrain else []}


def all_small_grids(R, C, directions):
    out = []
    for mask in range(1 << (R * C)):
        grid = [[(mask >> (r * C + c)) & 1 for c in range(C)] for r in range(R)]
        if grid[0][0] == 1:
            continue
        hs = ["auto"]
        out.append({"grid": grid, "start": [0, 0], "goal": [R - 1, C - 1], "directions": directions, "heuristics": hs,
                    "blocked": [1], "costs": []})
    return out
