"""C01/C02 driver: records solve_sat executions (hook events + return) as traces for CdclTrace.tla."""
import random

from drivers.labels import cont_mode, seq2


def run_sat(case):
    from solvor import _verif
    from solvor.sat import solve_sat
    clauses = [list(c) for c in case["clauses"]]
    if case.get("alias"):
        # one clause object listed at several positions (clauses += [c] * 2, a reused constraint): equal clauses share a list
        pool = {}
        call_clauses = [pool.setdefault(tuple(c), list(c)) for c in clauses]
    else:
        call_clauses = seq2(clauses, cont_mode(case))
    tr = {"clauses": clauses, "assumptions": case.get("assumptions", []), "limit": case.get("limit", 1),
          "max_conflicts": case.get("max_conflicts", 100000), "max_restarts": case.get("max_restarts", 10000),
          "luby_factor": case.get("luby_factor", 100), "planted": case.get("planted", []), "input": case}
    _verif.start()
    ev_ret = None
    sparse = bool(case.get("sparse"))
    orig_emit = _verif.emit
    if sparse:
        # long enumerations: record only the clause-database history (blocking clauses, the first reductions, budget
        # events); the spec's guards on these events do not depend on the trail
        n_red = [0]

        def emit(kind, **f):
            if kind in ("block", "max_iter"):
                orig_emit(kind, **f)
            elif kind == "reduce_db":
                n_red[0] += 1
                if n_red[0] <= 2:
                    orig_emit(kind, **f)
        _verif.emit = emit
    try:
        r = solve_sat(call_clauses, assumptions=case.get("assumptions") or None, max_conflicts=tr["max_conflicts"],
                      max_restarts=tr["max_restarts"], solution_limit=tr["limit"], luby_factor=tr["luby_factor"])
        def lits(d):
            return sorted((v if b else -v) for v, b in d.items())
        sols = []
        if r.solutions is not None:
            sols = [lits(s) for s in r.solutions]
        elif r.solution is not None:
            sols = [lits(r.solution)]
        ev_ret = {"e": "return", "status": r.status.name, "sols": sols, "has_first": r.solution is not None,
                  "first": lits(r.solution) if r.solution is not None else [],
                  "well_typed": all(type(b) is bool and type(v) is int for s in ([r.solution] if r.solution else []) for v, b in s.items())}
        if not ev_ret["well_typed"]:
            ev_ret = {"e": "raise", "what": "solution_not_int_to_bool"}
    except Exception as ex:  # noqa: BLE001
        ev_ret = {"e": "raise", "what": type(ex).__name__}
    events, dropped = _verif.stop()
    _verif.emit = orig_emit
    if sparse:
        tr["truncated"] = True
        tr["reduce_db_calls"] = n_red[0]
    out = []
    for e in events:
        if e["e"] == "learn":
            e = dict(e)
            e["has_clause"] = e["clause"] is not None
            if e["clause"] is None:
                e["clause"] = []
        out.append(e)
    if dropped:
        # internal events incomplete: keep only the (R) level
        out = [e for e in out if e["e"] == "max_iter"]
        tr["truncated"] = True
    out.append(ev_ret)
    tr["events"] = out
    tr.setdefault("truncated", False)
    tr["internal_events"] = len(out) - 1
    return tr


# ---------------------------------------------------------------- generators
def rand_cnf(rng, nv, nc, kmin=1, kmax=3, gaps=False, dup=False):
    names = list(range(1, nv + 1))
    if gaps:
        names = sorted(rng.sample(range(1, nv * 2 + 2), nv))
    cls = []
    for _ in range(nc):
        k = rng.randint(kmin, kmax)
        vs = [rng.choice(names) for _ in range(k)] if dup else rng.sample(names, min(k, nv))
        cls.append([v if rng.random() < 0.5 else -v for v in vs])
    if dup and cls and rng.random() < 0.3:
        cls.append(list(rng.choice(cls)))
    return cls


def threshold_3sat(rng, nv):
    nc = int(nv * rng.uniform(3.8, 4.6))
    return rand_cnf(rng, nv, nc, 3, 3)


def pigeonhole(p, h):
    v = lambda i, j: i * h + j + 1  # noqa: E731
    cls = [[v(i, j) for j in range(h)] for i in range(p)]
    for j in range(h):
        for a in range(p):
            for b in range(a + 1, p):
                cls.append([-v(a, j), -v(b, j)])
    return cls


def params(rng, small=False):
    return {
        "limit": rng.choice([1, 1, 2, 3, 100]),
        "max_conflicts": rng.choice([1, 5, 100000, 100000]) if small else rng.choice([50, 100000, 100000]),
        "max_restarts": rng.choice([0, 1, 10000, 10000]),
        "luby_factor": rng.choice([1, 1, 2, 3, 100]),
    }


def gen_random(rng, n, big=True):
    cases = []
    for i in range(n):
        r = rng.random()
        if r < 0.45:
            nv = rng.randint(1, 6)
            c = {"clauses": rand_cnf(rng, nv, rng.randint(1, 12), 1, 3, gaps=rng.random() < 0.2, dup=rng.random() < 0.2)}
            c.update(params(rng, small=True))
        elif r < 0.8 or not big:
            nv = rng.randint(5, 12)
            c = {"clauses": rand_cnf(rng, nv, int(nv * rng.uniform(2.5, 4.5)), 2, 3)}
            c.update(params(rng))
        else:
            nv = rng.randint(10, 22)
            c = {"clauses": threshold_3sat(rng, nv)}
            c.update(params(rng))
            c["luby_factor"] = rng.choice([1, 3])
            c["limit"] = rng.choice([1, 1, 2, 5])
        if rng.random() < 0.12:
            # a == b written as two binaries, FOLLOWED by (a or b) (together: a and b are both true), with other clauses in between
            # and something that invites the search to try a = b = false; enumeration makes every model get checked
            vs = sorted({abs(x) for cl in c["clauses"] for x in cl})
            if len(vs) >= 2:
                a, b = rng.sample(vs, 2)
                trio = [[a, -b], [-a, b], [a, b]]
                if rng.random() < 0.5:
                    trio[0], trio[1] = trio[1], trio[0]
                pos = sorted(rng.randint(0, len(c["clauses"])) for _ in range(3))
                for off, (pp, cl) in enumerate(zip(pos, trio)):
                    c["clauses"].insert(pp + off, [cl[1], cl[0]] if rng.random() < 0.5 else cl)
                c["limit"] = rng.choice([1, 10, 100])
        if rng.random() < 0.2:
            # a literal written twice in a two-literal clause is a unit constraint in disguise
            vs = sorted({abs(x) for cl in c["clauses"] for x in cl}) or [1]
            for _ in range(rng.randint(1, 2)):
                v = rng.choice(vs)
                lit = v if rng.random() < 0.5 else -v
                c["clauses"].insert(rng.randint(0, len(c["clauses"])), [lit, lit])
        if rng.random() < 0.3:
            longs = [cl for cl in c["clauses"] if len(cl) >= 3]
            for _ in range(rng.randint(1, 3) if longs else 0):
                c["clauses"].insert(rng.randint(0, len(c["clauses"])), list(rng.choice(longs)))
            c["alias"] = True
        allv = sorted({abs(x) for cl in c["clauses"] for x in cl})
        if rng.random() < 0.35 and allv:
            k = rng.randint(1, min(3, len(allv)))
            c["assumptions"] = [v if rng.random() < 0.5 else -v for v in rng.sample(allv, k)]
        else:
            c["assumptions"] = []
        cases.append(c)
    return cases


def gen_budget(rng, n):
    """hard formulas with a small conflict budget that falls inside runs of back-to-back conflicts"""
    out = []
    for _ in range(n):
        if rng.random() < 0.5:
            p = rng.choice([4, 5, 6])
            cls = pigeonhole(p, p - 1)
        else:
            cls = threshold_3sat(rng, rng.randint(14, 22))
        out.append({"clauses": cls, "assumptions": [], "limit": 1, "max_conflicts": rng.randint(1, 40), "max_restarts": 10000,
                    "luby_factor": rng.choice([1, 100, 100])})
    return out


def gen_units(rng, n):
    """mid-size 3-SAT near the threshold PLUS a few unit clauses (and binaries): facts fixed at level 0 that later conflicts must
    respect.  Return-level traces only (sparse), so that many can be run: what counts is that the model satisfies the units"""
    out = []
    for _ in range(n):
        nv = rng.randint(12, 32)
        cls = rand_cnf(rng, nv, int(nv * rng.uniform(3.4, 4.3)), 3, 3)
        for _ in range(rng.randint(1, 4)):
            v = rng.randint(1, nv)
            cls.insert(rng.randint(0, len(cls)), [v if rng.random() < 0.5 else -v])
        for _ in range(rng.randint(0, 3)):
            a, b = rng.sample(range(1, nv + 1), 2)
            cls.append([a if rng.random() < 0.5 else -a, b if rng.random() < 0.5 else -b])
        out.append({"clauses": cls, "assumptions": [], "limit": rng.choice([1, 1, 1, 3]), "max_conflicts": 100000, "max_restarts": 10000,
                    "luby_factor": rng.choice([100, 100, 3, 1]), "sparse": True})
    return out


def gen_enum(rng, n, small=False):
    """loose formulas with thousands of models, enumerated: blocking clauses accumulate past the reduce_db threshold
    (2000 entries in `learned`) while restarts (luby_factor 1-3) keep calling reduce_db"""
    out = []
    for _ in range(n):
        nv = 13 if small else rng.randint(13, 15)
        out.append({"clauses": rand_cnf(rng, nv, 8 if small else rng.randint(nv - 5, nv - 3), 3, 3), "assumptions": [], "limit": 100000,
                    "max_conflicts": 100000, "max_restarts": 10000, "luby_factor": rng.choice([1, 1, 3]), "sparse": True})
    return out


def gen_planted(rng, n):
    """large satisfiable-by-construction mixed 2/3-SAT (binary clauses last): >= 2000 learned clauses, so reduce_db runs
    over a database of learned clauses while the input has more clauses than the reduced database keeps.  The planted
    model is the satisfiability witness the trace spec checks instead of running its DPLL oracle on 300+ variables."""
    out = []
    for _ in range(n):
        nv = rng.randint(280, 340)
        plant = [None] + [rng.random() < 0.5 for _ in range(nv)]

        def cl(k):
            while True:
                vs = rng.sample(range(1, nv + 1), k)
                c = [v if rng.random() < 0.5 else -v for v in vs]
                if any(plant[abs(x)] == (x > 0) for x in c):
                    return c
        clauses = [cl(3) for _ in range(int(nv * 4.06))] + [cl(2) for _ in range(nv // 4)]
        lim = rng.choice([1, 3, 3])
        if rng.random() < 0.4:
            # a few almost free variables on top of the hard core: the enumeration collects dozens of blocking clauses between the
            # conflict-heavy stretches, so reduce_db runs over a database that holds both kinds of clauses
            free = list(range(nv + 1, nv + rng.randint(4, 6)))
            clauses.append(free + [1 if plant[1] else -1])
            plant += [True] * len(free)
            nv += len(free)
            lim = 48
        # budget: enough conflicts to pass the reduce_db threshold several times, small enough that the call is over in seconds
        # some with solution_limit 3: the database then holds blocking clauses when reduce_db runs over >= 2000 learned clauses
        out.append({"clauses": clauses, "assumptions": [], "limit": lim, "max_conflicts": 15000, "max_restarts": 10000,
                    "luby_factor": 100, "sparse": True, "planted": [v if plant[v] else -v for v in range(1, nv + 1)]})
    return out


def gen_select_php(rng, n):
    """a selector s (variable 1, decided first): s true forces all pigeon variables false and leaves k free variables (2^k models,
    found at once); s false leaves a pigeonhole formula PHP(8,7) - unsatisfiable and worth thousands of conflicts.  The
    enumeration therefore collects its blocking clauses first and then runs reduce_db many times over a database that holds them;
    if they were dropped, the same models would be found again after the refutation."""
    out = []
    for _ in range(n):
        k = rng.randint(2, 3)
        off = 1 + k
        php = [[(x + off if x > 0 else x - off) for x in c] for c in pigeonhole(8, 7)]
        cls = [[1] + c for c in php] + [[-1, -(v + off)] for v in range(1, 57)] + [list(range(2, 2 + k)) + [1]]
        out.append({"clauses": cls, "assumptions": [], "limit": 1000, "max_conflicts": 100000, "max_restarts": 10000,
                    "luby_factor": rng.choice([100, 100, 30]), "sparse": True})
    return out


GRID = [
    {"limit": 1, "max_conflicts": 100000, "max_restarts": 10000, "luby_factor": 100},
    {"limit": 3, "max_conflicts": 100000, "max_restarts": 10000, "luby_factor": 1},
    {"limit": 100, "max_conflicts": 5, "max_restarts": 1, "luby_factor": 2},
    {"limit": 2, "max_conflicts": 1, "max_restarts": 0, "luby_factor": 1},
]
