"""C12 driver: the nine accelerated functions under backend='python', 'rust' and the default, on the same input.

Runs in a worker whose PYTHONPATH starts with the overlay built by vlib.rustbuild (fresh extension from /repo/rust).
Produces (a) per-family functional traces reusing the C11/C13/C14/C15 projections and (b) a 'same' trace with the
meaning of each of the three results.
"""
import random

from drivers.paths import _proj

BACKENDS = ["python", "rust", None]


def _call(fn, args, kw, b):
    try:
        return fn(*args, **kw, **({"backend": b} if b is not None else {})), None
    except Exception as ex:  # noqa: BLE001
        return None, type(ex).__name__


def run_backends(case):
    import solvor.rust as sr
    from solvor.bellman_ford import bellman_ford
    from solvor.bfs import bfs_edges, dfs_edges
    from solvor.dijkstra import dijkstra_edges
    from solvor.floyd_warshall import floyd_warshall
    from solvor.mst import kruskal
    from solvor.pagerank import pagerank_edges
    from solvor.scc import strongly_connected_components_edges, topological_sort_edges
    if not sr.rust_available():
        return {"__norust__": True}
    n, scale = case["n"], case.get("wscale", 1)
    E3 = [(u, v, w / scale) for u, v, w in case["edges"]]
    E2 = [(u, v) for u, v, _ in case["edges"]]
    nonneg = all(w >= 0 for _, _, w in case["edges"])
    src, dst = case["src"], case["dst"]
    paths_ev, mst_ev, scc_ev, gp_ev, same = [], [], [], [], []

    def tri(fn_name, fn, args, kw, proj):
        rets = []
        for b in BACKENDS:
            r, err = _call(fn, args, kw, b)
            if err:
                rets.append({"e": "raise", "what": err, "backend": str(b)})
                continue
            ev = proj(r)
            ev["backend"] = str(b)
            rets.append(ev)
        same.append({"fn": fn_name, "n": n, "tol6": case.get("tol6", 1), "rets": rets, "input": {"case": case, "fn": fn_name, "kw": str(kw)}})
        return rets

    def p_target(solver, goals, sc):
        def f(r):
            ev = {"e": "ret", "solver": solver, "mode": "target", "src": src, "goals": goals, "status": r.status.name, "max_cost": -1, "max_iter": -1,
                  "has_path": r.solution is not None, "path": [int(x) for x in r.solution] if r.solution is not None else [], "obj": -1, "exact": True}
            if r.solution is not None:
                ev["obj"], ev["exact"] = _proj(float(r.objective), sc)
            ev["meaning"] = [ev["obj"], ev["has_path"]]
            return ev
        return f

    def p_all(solver):
        def f(r):
            ev = {"e": "ret", "solver": solver, "mode": "all", "src": src, "status": r.status.name, "dists": [], "exact": True}
            if r.solution is not None:
                pr = [(int(k), _proj(float(v), scale)) for k, v in r.solution.items()]
                ev["dists"] = sorted([k, p[0]] for k, p in pr)
                ev["exact"] = all(p[1] for _, p in pr)
            ev["meaning"] = ev["dists"]
            return ev
        return f

    def p_reach(solver):
        def f(r):
            nodes = [int(x) for x in r.solution]
            return {"e": "ret", "solver": solver, "mode": "reach", "src": src, "status": r.status.name, "nodes": nodes, "meaning": sorted(set(nodes))}
        return f

    def p_fw(directed):
        def f(r):
            ev = {"e": "ret", "solver": "floyd_warshall", "mode": "fw", "src": 0, "directed": directed, "status": r.status.name, "matrix": [], "exact": True}
            if r.solution is not None:
                pr = [[_proj(float(x), scale) for x in row] for row in r.solution]
                ev["matrix"] = [[p[0] for p in row] for row in pr]
                ev["exact"] = all(p[1] for row in pr for p in row)
            ev["meaning"] = ev["matrix"]
            return ev
        return f

    for directed in (True, False):
        paths_ev += tri("floyd_warshall", floyd_warshall, (n, E3), {"directed": directed}, p_fw(directed))
    paths_ev += tri("bellman_ford", bellman_ford, (src, E3, n), {"target": dst}, p_target("bellman_ford", [dst], scale))
    paths_ev += tri("bellman_ford", bellman_ford, (src, E3, n), {}, p_all("bellman_ford"))
    if nonneg:
        paths_ev += tri("dijkstra_edges", dijkstra_edges, (n, E3, src), {"target": dst}, p_target("dijkstra_edges", [dst], scale))
        paths_ev += tri("dijkstra_edges", dijkstra_edges, (n, E3, src), {}, p_all("dijkstra_edges"))
    paths_ev += tri("bfs_edges", bfs_edges, (n, E2, src), {"target": dst}, p_target("bfs_edges", [dst], 1))
    paths_ev += tri("bfs_edges", bfs_edges, (n, E2, src), {}, p_reach("bfs_edges"))
    paths_ev += tri("dfs_edges", dfs_edges, (n, E2, src), {"target": dst}, p_target("dfs_edges", [dst], 1))
    paths_ev += tri("dfs_edges", dfs_edges, (n, E2, src), {}, p_reach("dfs_edges"))
    # dfs paths need not have equal length: their meaning is only "a path exists"
    for s in same:
        if s["fn"] == "dfs_edges":
            for r in s["rets"]:
                if r.get("mode") == "target":
                    r["meaning"] = [r["has_path"]]

    def p_kruskal(af):
        def f(r):
            ev = {"e": "ret", "solver": "kruskal", "status": r.status.name, "allow_forest": af, "tree": [], "obj": -1, "exact": True}
            if r.solution is not None:
                tr = [(int(a), int(b), _proj(float(w), scale)) for a, b, w in r.solution]
                ev["tree"] = [[a, b, p[0]] for a, b, p in tr]
                o, ex = _proj(float(r.objective), scale)
                ev["obj"], ev["exact"] = o, ex and all(p[1] for _, _, p in tr)
            ev["meaning"] = [ev["obj"], len(ev["tree"])]
            return ev
        return f
    for af in (False, True):
        mst_ev += tri("kruskal", kruskal, (n, E3), {"allow_forest": af}, p_kruskal(af))

    def p_scc(r):
        comps = [[int(x) for x in c] for c in r.solution]
        return {"e": "ret", "fn": "scc_edges", "status": r.status.name, "comps": comps, "meaning": sorted(sorted(c) for c in comps)}
    scc_ev += tri("strongly_connected_components_edges", strongly_connected_components_edges, (n, E2), {}, p_scc)

    def p_topo(r):
        return {"e": "ret", "fn": "topo_edges", "status": r.status.name, "order": [int(x) for x in r.solution] if r.solution is not None else [],
                "meaning": [r.solution is not None]}
    scc_ev += tri("topological_sort_edges", topological_sort_edges, (n, E2), {}, p_topo)
    dp, dq, tol6 = case.get("dp", 17), case.get("dq", 20), case.get("tol6", 1)

    def p_pr(r):
        sc = [r.solution[i] for i in range(n)]
        if any(not (x == x) or abs(x) > 10 for x in sc):
            return {"e": "raise", "fn": "pagerank", "what": "non_finite_score"}
        s6 = [int(round(x * 1000000)) for x in sc]
        return {"e": "ret", "fn": "pagerank", "status": r.status.name, "dp": dp, "dq": dq, "tol6": tol6, "scores": s6, "meaning": []}
    gp_ev += tri("pagerank_edges", pagerank_edges, (n, E2), {"damping": dp / dq, "tol": tol6 * 1e-6, "max_iter": 3000}, p_pr)
    # iteration limit and tolerance are inputs too: "the same status" must hold when the limit bites; the scores of these short runs
    # are compared between the back-ends only (the functional PageRank check needs convergence), hence not appended to gp_ev
    for mi in case.get("pr_max_iters", (0, 1, 2, 3, 5, 8)):
        t6 = case.get("pr_tol6", 10000)

        def p_short(r, t6=t6):
            ev = p_pr(r)
            ev["tol6"] = t6
            return ev
        tri("pagerank_edges", pagerank_edges, (n, E2), {"damping": dp / dq, "tol": t6 * 1e-6, "max_iter": mi}, p_short)
        same[-1]["tol6"] = t6
    # ---- call history on the same objects: one edge is replaced IN PLACE in the very lists used above (same identity, same
    # length), then every function is called again; only the agreement of the three back-ends is checked for these calls
    if E2:
        k = case.get("mut_index", len(E2) // 2) % len(E2)
        u, v = E2[k]
        nu, nv = (v, u) if u != v else (u, (v + 1) % n)
        E2[k] = (nu, nv)
        E3[k] = (nu, nv, E3[k][2])
        nonneg2 = all(w >= 0 for _, _, w in E3)
        tri("bfs_edges", bfs_edges, (n, E2, src), {}, p_reach("bfs_edges"))
        tri("bfs_edges", bfs_edges, (n, E2, src), {"target": dst}, p_target("bfs_edges", [dst], 1))
        tri("dfs_edges", dfs_edges, (n, E2, src), {}, p_reach("dfs_edges"))
        tri("strongly_connected_components_edges", strongly_connected_components_edges, (n, E2), {}, p_scc)
        tri("topological_sort_edges", topological_sort_edges, (n, E2), {}, p_topo)
        tri("bellman_ford", bellman_ford, (src, E3, n), {}, p_all("bellman_ford"))
        tri("floyd_warshall", floyd_warshall, (n, E3), {"directed": True}, p_fw(True))
        tri("kruskal", kruskal, (n, E3), {"allow_forest": True}, p_kruskal(True))
        if nonneg2:
            tri("dijkstra_edges", dijkstra_edges, (n, E3, src), {}, p_all("dijkstra_edges"))
    for ev in paths_ev:
        ev.setdefault("solver", "worker")
    return {"same": same,
            "paths": {"kind": "graph", "n": n, "edges": [list(e) for e in case["edges"]], "events": paths_ev, "input": case},
            "mst": {"n": n, "edges": [list(e) for e in case["edges"]], "events": [dict(e, solver=e.get("solver", "kruskal")) for e in mst_ev], "input": case},
            "scc": {"n": n, "m": n, "edges": [[u, v] for u, v, _ in case["edges"]], "events": [dict(e, fn=e.get("fn", "scc_edges")) for e in scc_ev], "input": case},
            "gp": {"n": n, "edges": [[u, v] for u, v, _ in case["edges"]], "events": [dict(e, fn=e.get("fn", "pagerank")) for e in gp_ev], "input": case}}


def gen(rng, nmax=10):
    n = rng.randint(1, nmax)
    neg = rng.random() < 0.3
    dens = rng.choice([0.1, 0.2, 0.35, 0.5])
    edges = []
    for u in range(n):
        for v in range(n):
            if rng.random() < dens:
                edges.append([u, v, rng.randint(-3 if neg else 0, 9)])
                if rng.random() < 0.2:
                    edges.append([u, v, rng.randint(0, 9)])            # duplicate edge, different weight
                if rng.random() < 0.25:
                    edges.append([v, u, rng.randint(0, 9)])            # anti-parallel edge, different weight
    rng.shuffle(edges)
    if n >= 4 and rng.random() < 0.12:
        # a negative cycle the source reaches, and a target it does not reach (an isolated node): UNBOUNDED, not INFEASIBLE
        a, b, t = 1, 2, n - 1
        edges = [e for e in edges if t not in (e[0], e[1]) and e[2] >= 0] + [[0, a, 1], [a, b, 1], [b, a, -rng.randint(2, 4)]]
        rng.shuffle(edges)
        return {"n": n, "edges": edges, "wscale": 1, "src": 0, "dst": t, "dp": 17, "dq": 20, "tol6": 1}
    return {"n": n, "edges": edges, "wscale": rng.choice([1, 1, 4]), "src": rng.randrange(n), "dst": rng.randrange(n),
            "dp": rng.choice([17, 10, 19, 3]), "dq": 20, "tol6": rng.choice([1, 100])}
