"""C07 driver: solve_exact_cover under several configurations on one input -> trace for DlxTrace.tla."""
from drivers.labels import cont_mode, seq1, seq2
import copy
import random

NAMES = ["a", "b", ("t", 1), 7, "c4", 2.5, "e", frozenset([1]), "g", -3]


def run_dlx(case):
    from solvor.dlx import solve_exact_cover
    M = case["matrix"]
    prim = case["prim"]
    ncols = len(M[0]) if M else len(case.get("names") or [])
    names = None
    if case.get("names") is not None:
        names = list(case["names"])         # integer names that are not the positions (1-based, permuted)
    elif case.get("named"):
        names = NAMES[:ncols]
    colnames = names if names else list(range(ncols))
    secondary = [colnames[c] for c in range(ncols) if not prim[c]]
    events = []
    for cfg in case["calls"]:
        before = copy.deepcopy(M)
        try:
            kw = {"find_all": cfg["find_all"], "max_iter": cfg["max_iter"]}
            if cfg["max_solutions"]:
                kw["max_solutions"] = cfg["max_solutions"]
            if names is not None:
                kw["columns"] = names
            if secondary or case.get("pass_empty_secondary"):
                sm = cont_mode(case)         # any iterable of names: list, set, one-shot generator
                kw["secondary"] = secondary if sm == 0 else (set(secondary) if sm == 1 else (x for x in list(secondary)))
            arg = before if not case.get("tuples") else tuple(tuple(r) for r in before)
            r = solve_exact_cover(arg, **kw)
            sol = r.solution
            if sol is None:
                sols = []
            elif cfg["find_all"]:
                if not isinstance(sol, list):         # "the returned list": a bare tuple is the single-solution format
                    events.append({"e": "raise", "what": "find_all_result_is_not_a_list_of_covers"})
                    continue
                sols = [list(s) for s in sol]
            else:
                sols = [list(sol)]
            if not all(type(x) is int for s in sols for x in s):
                events.append({"e": "raise", "what": "non_int_row_index"})
                continue
            events.append({"e": "ret", "find_all": cfg["find_all"], "max_solutions": cfg["max_solutions"] or 0,
                           "max_iter": cfg["max_iter"], "status": r.status.name, "sols": sols,
                           "matrix_after": [list(row) for row in before]})
        except Exception as ex:  # noqa: BLE001
            events.append({"e": "raise", "what": type(ex).__name__})
    return {"matrix": M, "prim": prim, "events": events, "input": case}


def run_dlx_steps(case):
    """Step level: wrap the module functions _build_links / _cover / _uncover (nothing in the library changes) and, after each
    call, walk the real link structure: linked headers, each column walked down and up, the size counters."""
    import solvor.dlx as D
    M = case["matrix"]
    prim = case["prim"]
    ncols = len(M[0]) if M else 0
    R = len(M)
    secondary = [c for c in range(ncols) if not prim[c]]
    ctx = {}
    steps = []
    orig = (D._build_links, D._cover, D._uncover)

    def snap(op, c):
        cols = ctx["cols"]
        down, up, broken = [], [], False
        for col in cols:
            for attr, out in (("down", down), ("up", up)):
                rows, node, k = [], getattr(col, attr), 0
                while node is not col and k <= R + 1:
                    rows.append(node.row + 1)
                    node = getattr(node, attr)
                    k += 1
                broken = broken or node is not col
                out.append(rows)
        steps.append({"op": op, "c": c, "active": [i + 1 for i, col in enumerate(cols) if col.left.right is col and col.right.left is col],
                      "down": down, "up": up, "sizes": [int(col.size) for col in cols], "broken": broken})

    def build(matrix, columns=None, secondary=None):
        r = orig[0](matrix, columns, secondary)
        ctx["cols"] = r[1]
        ctx["idx"] = {id(col): i + 1 for i, col in enumerate(r[1])}
        if r[0] is not None:
            snap("build", 0)
        return r

    def cover(col):
        orig[1](col)
        if len(steps) < 600:
            snap("cover", ctx["idx"].get(id(col), 0))

    def uncover(col):
        orig[2](col)
        if len(steps) < 600:
            snap("uncover", ctx["idx"].get(id(col), 0))
    D._build_links, D._cover, D._uncover = build, cover, uncover
    try:
        kw = {"find_all": case.get("find_all", True)}
        if secondary:
            kw["secondary"] = secondary
        if case.get("max_solutions"):
            kw["max_solutions"] = case["max_solutions"]
        try:
            r = D.solve_exact_cover([list(row) for row in M], **kw)
            status = r.status.name
        except Exception as ex:  # noqa: BLE001
            status = "raise:" + type(ex).__name__
    finally:
        D._build_links, D._cover, D._uncover = orig
    if not steps or len(steps) >= 600:
        return {"skipped": True}
    complete = status == "INFEASIBLE" or (status == "OPTIMAL" and kw["find_all"] and not case.get("max_solutions"))
    return {"matrix": M, "ncols": ncols, "steps": steps, "status": status, "complete": bool(complete), "input": case}


def _adjacent_removal(steps):
    """coverage criterion for the link level: some cover removed two vertically adjacent nodes from one column - the case in which
    the order of re-linking in _uncover matters"""
    n = 0
    for a, b in zip(steps, steps[1:]):
        if b["op"] != "cover":
            continue
        for before, after in zip(a["down"], b["down"]):
            gone = set(before) - set(after)
            if len(gone) >= 2 and any(x in gone and y in gone for x, y in zip(before, before[1:])):
                n += 1
    return n


def run_dlx_steps_bulk(case):
    """Coverage-directed generation for the link level: many random matrices; executions in which a cover removes vertically
    adjacent nodes (rare on small matrices) are kept, the rest is sampled.  Only kept executions go to TLC."""
    rng = random.Random(case["seed"])
    kept, cov = [], {"calls": 0, "adjacent_removals": 0, "kept": 0}
    for c in gen_steps(rng, case["count"], big=True):
        c["find_all"], c["max_solutions"] = True, 0
        tr = run_dlx_steps(c)
        if "steps" not in tr:
            continue
        cov["calls"] += 1
        k = _adjacent_removal(tr["steps"])
        cov["adjacent_removals"] += k > 0
        if (k >= 2 and len(kept) < case.get("cap", 60)) or rng.random() < 0.002:
            tr["coverage"] = "AdjacentRemoval" if k else "sample"
            kept.append(tr)
    cov["kept"] = len(kept)
    return {"kept": kept, "cov": cov}


def gen_steps(rng, n, big=False):
    """small matrices for the step level (the whole cover/uncover history is logged)"""
    out = []
    for _ in range(n):
        if big or rng.random() < 0.35:      # deeper nesting of covers
            R, C = rng.randint(5, 9), rng.randint(4, 7)
            dens = rng.choice([0.3, 0.4, 0.5])
        else:
            R, C = rng.randint(1, 7), rng.randint(1, 6)
            dens = rng.choice([0.3, 0.45, 0.6])
        M = [[1 if rng.random() < dens else 0 for _ in range(C)] for _ in range(R)]
        if rng.random() < 0.3 and R > 1:
            M[rng.randrange(R)] = list(M[rng.randrange(R)])
        pr = rng.random()
        prim = [True] * C if pr < 0.5 else [rng.random() < 0.7 for _ in range(C)]
        out.append({"matrix": M, "prim": prim, "find_all": rng.random() < 0.7, "max_solutions": rng.choice([0, 0, 0, 1, 2])})
    return out


CALLS = [
    {"find_all": True, "max_solutions": None, "max_iter": 10_000_000},
    {"find_all": False, "max_solutions": None, "max_iter": 10_000_000},
    {"find_all": True, "max_solutions": None, "max_iter": 10_000_000},     # repeated call
    {"find_all": True, "max_solutions": 2, "max_iter": 10_000_000},
    {"find_all": True, "max_solutions": 1, "max_iter": 10_000_000},
    {"find_all": True, "max_solutions": None, "max_iter": 3},
    {"find_all": False, "max_solutions": None, "max_iter": 2},
]


# matrices without columns (and possibly without rows): the only exact cover is the empty selection
DEGENERATE = [{"matrix": m, "prim": [], "calls": CALLS, "named": False, "tuples": False, "pass_empty_secondary": pes}
              for m in ([], [[]], [[], []]) for pes in (False, True)]
# no rows but declared columns: a primary column cannot be covered, secondary ones need not be
DEGENERATE += [{"matrix": [], "prim": pr, "calls": CALLS, "names": nm, "tuples": False, "pass_empty_secondary": False}
               for pr, nm in (([True], ["A"]), ([False], ["A"]), ([True, False], ["A", "B"]), ([False, False], [3, 4]),
                                 ([False, True], ["A", "B"]), ([False, True, False], [7, 8, 9]), ([True, True, False], ["p", "q", "r"]))]


def gen_random(rng, n):
    out = []
    for _ in range(n):
        dense = rng.random() < 0.5
        if dense:        # many overlapping rows with >= 2 ones: deep nested cover/uncover sequences
            R, C = rng.randint(4, 10), rng.randint(3, 8)
            dens = rng.choice([0.35, 0.45, 0.55])
        else:
            R, C = rng.randint(1, 8), rng.randint(1, 7)
            dens = rng.choice([0.2, 0.3, 0.45, 0.6])
        M = [[1 if rng.random() < dens else 0 for _ in range(C)] for _ in range(R)]
        if dense:
            pr = rng.random()
            prim = [True] * C if pr < 0.6 else [rng.random() < 0.75 for _ in range(C)]
            out.append({"matrix": M, "prim": prim, "calls": CALLS, "named": rng.random() < 0.3,
                        "tuples": False, "pass_empty_secondary": False})
            continue
        if rng.random() < 0.3 and R > 1:
            M[rng.randrange(R)] = list(M[rng.randrange(R)])      # duplicate row
        if rng.random() < 0.2:
            M[rng.randrange(R)] = [0] * C                          # empty row (possibly the first)
        if rng.random() < 0.4:
            # plant a cover so that satisfiable instances are common
            perm = list(range(C))
            rng.shuffle(perm)
            k = rng.randint(1, min(R, C))
            cuts = sorted(rng.sample(range(1, C), k - 1)) if C > 1 and k > 1 else []
            parts = [perm[a:b] for a, b in zip([0] + cuts, cuts + [C])]
            for i, part in enumerate(parts[:R]):
                M[i] = [1 if c in part else 0 for c in range(C)]
        pr = rng.random()
        prim = [True] * C if pr < 0.4 else ([False] * C if pr < 0.45 else [rng.random() < 0.7 for _ in range(C)])
        out.append({"matrix": M, "prim": prim, "calls": CALLS, "named": rng.random() < 0.4,
                    "tuples": rng.random() < 0.2, "pass_empty_secondary": rng.random() < 0.3})
        r = rng.random()
        if r < 0.3:       # integer column names overlapping the positions without being the positions
            out[-1]["names"] = list(range(1, C + 1)) if r < 0.1 else (rng.sample(range(C), C) if r < 0.25 else rng.sample(range(C + 2), C))
    return out
