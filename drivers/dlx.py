"""C07 driver: solve_exact_cover under several configurations on one input -> trace for DlxTrace.tla."""
import copy
import random

NAMES = ["a", "b", ("t", 1), 7, "c4", 2.5, "e", frozenset([1]), "g", -3]


def run_dlx(case):
    from solvor.dlx import solve_exact_cover
    M = case["matrix"]
    prim = case["prim"]
    ncols = len(M[0]) if M else 0
    names = None
    if case.get("named"):
        names = NAMES[:ncols]
    colnames = names if names else list(range(ncols))
    secondary = [colnames[c] for c in range(ncols) if not prim[c]]
    events = []
    for cfg in case["calls"]:
        before = copy.deepcopy(M)
        try:
            kw = {"find_all": cfg["find_all"], "max_iter": cfg["max_iter"]}
            if cfg["max_solutions"]:
                kw["max_solutions"] = cfg["max_solutions"]
            if names is not None:
                kw["columns"] = names
            if secondary or case.get("pass_empty_secondary"):
                kw["secondary"] = secondary
            arg = before if not case.get("tuples") else tuple(tuple(r) for r in before)
            r = solve_exact_cover(arg, **kw)
            sol = r.solution
            if sol is None:
                sols = []
            elif cfg["find_all"]:
                if not isinstance(sol, list):         # "the returned list": a bare tuple is the single-solution format
                    events.append({"e": "raise", "what": "find_all_result_is_not_a_list_of_covers"})
                    continue
                sols = [list(s) for s in sol]
            else:
                sols = [list(sol)]
            if not all(type(x) is int for s in sols for x in s):
                events.append({"e": "raise", "what": "non_int_row_index"})
                continue
            events.append({"e": "ret", "find_all": cfg["find_all"], "max_solutions": cfg["max_solutions"] or 0,
                           "max_iter": cfg["max_iter"], "status": r.status.name, "sols": sols,
                           "matrix_after": [list(row) for row in before]})
        except Exception as ex:  # noqa: BLE001
            events.append({"e": "raise", "what": type(ex).__name__})
    return {"matrix": M, "prim": prim, "events": events, "input": case}


CALLS = [
    {"find_all": True, "max_solutions": None, "max_iter": 10_000_000},
    {"find_all": False, "max_solutions": None, "max_iter": 10_000_000},
    {"find_all": True, "max_solutions": None, "max_iter": 10_000_000},     # repeated call
    {"find_all": True, "max_solutions": 2, "max_iter": 10_000_000},
    {"find_all": True, "max_solutions": 1, "max_iter": 10_000_000},
    {"find_all": True, "max_solutions": None, "max_iter": 3},
    {"find_all": False, "max_solutions": None, "max_iter": 2},
]


# matrices without columns (and possibly without rows): the only exact cover is the empty selection
DEGENERATE = [{"matrix": m, "prim": [], "calls": CALLS, "named": False, "tuples": False, "pass_empty_secondary": pes}
              for m in ([], [[]], [[], []]) for pes in (False, True)]


def gen_random(rng, n):
    out = []
    for _ in range(n):
        dense = rng.random() < 0.5
        if dense:        # many overlapping rows with >= 2 ones: deep nested cover/uncover sequences
            R, C = rng.randint(4, 10), rng.randint(3, 8)
            dens = rng.choice([0.35, 0.45, 0.55])
        else:
            R, C = rng.randint(1, 8), rng.randint(1, 7)
            dens = rng.choice([0.2, 0.3, 0.45, 0.6])
        M = [[1 if rng.random() < dens else 0 for _ in range(C)] for _ in range(R)]
        if dense:
            pr = rng.random()
            prim = [True] * C if pr < 0.6 else [rng.random() < 0.75 for _ in range(C)]
            out.append({"matrix": M, "prim": prim, "calls": CALLS, "named": rng.random() < 0.3,
                        "tuples": False, "pass_empty_secondary": False})
            continue
        if rng.random() < 0.3 and R > 1:
            M[rng.randrange(R)] = list(M[rng.randrange(R)])      # duplicate row
        if rng.random() < 0.2:
            M[rng.randrange(R)] = [0] * C                          # empty row (possibly the first)
        if rng.random() < 0.4:
            # plant a cover so that satisfiable instances are common
            perm = list(range(C))
            rng.shuffle(perm)
            k = rng.randint(1, min(R, C))
            cuts = sorted(rng.sample(range(1, C), k - 1)) if C > 1 and k > 1 else []
            parts = [perm[a:b] for a, b in zip([0] + cuts, cuts + [C])]
            for i, part in enumerate(parts[:R]):
                M[i] = [1 if c in part else 0 for c in range(C)]
        pr = rng.random()
        prim = [True] * C if pr < 0.4 else ([False] * C if pr < 0.45 else [rng.random() < 0.7 for _ in range(C)])
        out.append({"matrix": M, "prim": prim, "calls": CALLS, "named": rng.random() < 0.4,
                    "tuples": rng.random() < 0.2, "pass_empty_secondary": rng.random() < 0.3})
    return out
