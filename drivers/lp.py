"""C03 driver: solve_lp / solve_lp_interior on integer LPs, minimize and maximize."""
from drivers.labels import cont_mode, seq1, seq2
import math
import random


def _ev(solver, r, minimize, n):
    x = list(r.solution) if r.solution is not None else []
    vals = x + [r.objective]
    fin = all(isinstance(v, (int, float)) and math.isfinite(v) for v in vals)
    huge = fin and (any(abs(v) >= 1e5 for v in x) or abs(r.objective) >= 1e3)       # not representable in the 32-bit projection
    ev = {"e": "ret", "solver": solver, "status": r.status.name, "minimize": minimize, "finite": bool(fin), "huge": bool(huge),
          "x4": [0] * n, "obj4": 0, "obj6": 0}
    if fin and not huge:
        ev["x4"] = [int(round(v * 10000)) for v in x]
        ev["obj4"] = int(round(r.objective * 10000))
        ev["obj6"] = int(math.floor(r.objective * 1000000 + 0.5))
    return ev


def run_lp(case):
    from solvor.interior_point import solve_lp_interior
    from solvor.simplex import solve_lp
    A, b, c = case["A"], case["b"], case["c"]
    m, n = len(b), len(c)
    fl = case.get("floats")
    Af = [[float(v) for v in row] for row in A] if fl else [list(row) for row in A]
    bf = [float(v) for v in b] if fl else list(b)
    cf = [float(v) for v in c] if fl else list(c)
    rowden, cden = case.get("rowden"), case.get("cden", 1)
    if rowden or cden != 1:       # small rational data: dyadic, hence exact as floats; same feasible set, objective divided by cden
        rowden = rowden or [1] * m
        Af = [[v / d for v in row] for row, d in zip(A, rowden)]
        bf = [v / d for v, d in zip(b, rowden)]
        cf = [v / cden for v in c]
    events = []
    if case.get("simplex_only"):
        # bulk family: only the two solve_lp verdicts (cheap to validate), no interior point, no limits
        for minimize in (True, False):
            try:
                events.append(_ev("simplex", solve_lp(cf, Af, bf, minimize=minimize), minimize, n))
            except Exception as ex:  # noqa: BLE001
                events.append({"e": "raise", "solver": "simplex", "what": type(ex).__name__})
        return {"A": A, "b": b, "c": c, "m": m, "n": n, "cden": cden, "events": events, "input": case}
    pad = case.get("pad")
    if pad:
        # hundreds of implied rows (row i with a right-hand side raised by t >= 0) listed before the real ones: the same feasible
        # set and optimum, but the binding rows - where the pivots happen - sit beyond row index 256
        Ap = [list(Af[i]) for i, _ in pad] + Af
        bp = [bf[i] + (float(t) / (rowden[i] if rowden else 1) if isinstance(bf[i], float) else t) for i, t in pad] + bf
        for minimize in (True, False):
            try:
                events.append(_ev("simplex", solve_lp(cf, Ap, bp, minimize=minimize), minimize, n))
            except Exception as ex:  # noqa: BLE001
                events.append({"e": "raise", "solver": "simplex", "what": type(ex).__name__})
        return {"A": A, "b": b, "c": c, "m": m, "n": n, "cden": cden, "events": events, "input": case}
    for solver, fn in (("simplex", solve_lp), ("interior", solve_lp_interior)):
        for minimize in (True, False):
            try:
                cm = cont_mode(case)
                events.append(_ev(solver, fn(seq1(cf, cm), seq2(Af, cm), seq1(bf, cm), minimize=minimize), minimize, n))
            except Exception as ex:  # noqa: BLE001
                events.append({"e": "raise", "solver": solver, "what": type(ex).__name__})
    # interior point stopped early: whatever it answers then (FEASIBLE needs the documented 0.01 residual, OPTIMAL the true optimum)
    for mi in case.get("interior_max_iters", (2, 3, 4, 6, 9)):
        for minimize in (True, False):
            try:
                events.append(_ev("interior", solve_lp_interior(cf, Af, bf, minimize=minimize, max_iter=mi), minimize, n))
            except Exception as ex:  # noqa: BLE001
                events.append({"e": "raise", "solver": "interior", "what": type(ex).__name__})
    # the iteration limit: "short of its iteration limit, which it reports as MAX_ITER" - every other verdict must stay true
    for mi in case.get("max_iters", (1, 2, 3)):
        for minimize in (True, False):
            try:
                events.append(_ev("simplex", solve_lp(cf, Af, bf, minimize=minimize, max_iter=mi), minimize, n))
            except Exception as ex:  # noqa: BLE001
                events.append({"e": "raise", "solver": "simplex", "what": type(ex).__name__})
    return {"A": A, "b": b, "c": c, "m": m, "n": n, "cden": cden, "events": events, "input": case}


def run_lp_steps(case):
    """Step level: wrap solvor.simplex._phase2 / _pivot (nothing in the library changes) and record, for the final phase-2 run on
    the tableau of [A I], the starting basis and every (row, entering column) pivot."""
    import solvor.simplex as S
    A, b, c = case["A"], case["b"], case["c"]
    m, n = len(b), len(c)
    out = []
    for minimize in (True, False):
        rec = {"active": False, "basis0": None, "pivots": []}
        orig2, origp = S._phase2, S._pivot

        def phase2(matrix, basis, basis_set, mm, eps, max_iter, rec=rec, orig2=orig2):
            final = len(matrix[0]) == n + m + 1
            if final:
                rec["active"] = True
                rec["basis0"] = [int(x) + 1 for x in basis]
            try:
                return orig2(matrix, basis, basis_set, mm, eps, max_iter)
            finally:
                rec["active"] = False

        def pivot(matrix, mm, row, col, eps, rec=rec, origp=origp):
            if rec["active"]:
                rec["pivots"].append([int(row) + 1, int(col) + 1])
            return origp(matrix, mm, row, col, eps)
        S._phase2, S._pivot = phase2, pivot
        try:
            r = S.solve_lp(list(c), [list(row) for row in A], list(b), minimize=minimize)
            status = r.status.name
        except Exception as ex:  # noqa: BLE001
            status = "raise:" + type(ex).__name__
        finally:
            S._phase2, S._pivot = orig2, origp
        if rec["basis0"] is not None and len(rec["pivots"]) <= 60:
            out.append({"A": A, "b": b, "c": c, "m": m, "n": n, "minimize": minimize, "basis0": rec["basis0"], "pivots": rec["pivots"],
                        "status": status, "input": case})
    return {"steps": out}


def gen_equalities(rng):
    """one or two equality constraints, each written as a <= row plus the opposite >= row, consistent with a non-negative
    integer point (phase 1 is needed and ends with several artificial variables basic at level zero)"""
    n = rng.randint(1, 3)
    k = rng.randint(1, 2)
    x0 = [rng.randint(0, 2) for _ in range(n)]
    A, b = [], []
    for _ in range(k):
        row = [rng.randint(-2, 3) for _ in range(n)]
        if not any(row):
            row[rng.randrange(n)] = rng.choice([1, 2])
        rhs = sum(a * x for a, x in zip(row, x0))
        if rng.random() < 0.15:
            rhs += rng.choice([-1, 1])          # sometimes inconsistent / shifted
        A += [row, [-a for a in row]]
        b += [rhs, -rhs]
    if len(A) < 4 and rng.random() < 0.5:
        A.append([rng.randint(0, 2) for _ in range(n)])
        b.append(rng.randint(1, 3))
    order = list(range(len(A)))
    rng.shuffle(order)
    lim = 3
    return {"A": [A[i] for i in order][:4], "b": [max(-lim, min(lim, b[i])) for i in order][:4] if False else [b[i] for i in order][:4],
            "c": [rng.randint(-3, 3) for _ in range(n)], "floats": rng.random() < 0.5}


def gen_degenerate_pairs(rng):
    """a homogeneous (or consistent) equality written as a row and its negation with non-dyadic coefficients (pivots like 5/7
    leave rounding residues where the exact tableau entry is 0), at a degenerate vertex, with an objective that is often unbounded
    along the equality's ray"""
    n = rng.randint(2, 3)
    row = [rng.choice([-7, -5, -3, 3, 5, 6, 7]) for _ in range(n)]
    if all(v > 0 for v in row) or all(v < 0 for v in row):
        row[rng.randrange(n)] *= -1
    x0 = [rng.randint(0, 1) for _ in range(n)] if rng.random() < 0.4 else [0] * n
    rhs = sum(a * x for a, x in zip(row, x0))
    A, b = [row, [-a for a in row]], [rhs, -rhs]
    if rng.random() < 0.4:
        A.append([rng.randint(0, 3) for _ in range(n)])
        b.append(rng.randint(0, 4))
    order = list(range(len(A)))
    rng.shuffle(order)
    return {"A": [A[i] for i in order], "b": [b[i] for i in order], "c": [rng.randint(-9, 9) for _ in range(n)], "floats": rng.random() < 0.5}


def gen_nearly_feasible(rng):
    """an infeasible LP whose contradiction is small (k x <= 1 and (k-1) x >= 1, a sum bounded above by 1 and below by 1.1 ...): the
    residual of an interior-point iterate stays small without ever vanishing"""
    n = rng.randint(1, 3)
    a = [rng.randint(1, 3) for _ in range(n)]
    k = rng.randint(5, 12)
    gap = rng.choice([1, 1, 2])
    A = [[k * v for v in a], [-(k - gap) * v for v in a]]
    b = [1, -1]
    if rng.random() < 0.5:
        A = [[10 * v for v in a], [-10 * v for v in a]]
        b = [10, -(10 + rng.choice([1, 1, 2]))]          # sum <= 1 and sum >= 1.1 / 1.2
    for j in range(n):
        if rng.random() < 0.5:
            row = [0] * n
            row[j] = 1
            A.append(row)
            b.append(rng.randint(3, 5))
    return {"A": A, "b": b, "c": [rng.randint(-3, 3) for _ in range(n)], "floats": rng.random() < 0.5}


def gen_negative_rhs(rng):
    """mostly negative right-hand sides, small mixed-sign rows: phase 1 works hard and many of these are infeasible - the verdict
    rests on how phase 1 ends (artificials leaving, re-entering, sitting at zero)"""
    n, m = rng.randint(2, 3), rng.randint(2, 4)
    return {"A": [[rng.randint(-3, 3) for _ in range(n)] for _ in range(m)],
            "b": [-rng.randint(1, 4) if rng.random() < 0.8 else rng.randint(0, 4) for _ in range(m)],
            "c": [rng.randint(-3, 3) for _ in range(n)], "floats": rng.random() < 0.5, "simplex_only": True}


def gen_cover(rng):
    """covering rows (-a.x <= -d: phase 1 has to bring original variables into the basis) plus a few packing rows, every cost non-zero
    and of either sign: phase 2 starts from a basis that holds costly variables and has to pivot them out again"""
    n = rng.randint(2, 4)
    rows, rhs = [], []
    for _ in range(rng.randint(1, 3)):
        rows.append([-rng.randint(0, 4) for _ in range(n)])
        rhs.append(-rng.randint(1, 6))
    for _ in range(rng.randint(0, 2)):
        rows.append([rng.randint(-3, 4) for _ in range(n)])
        rhs.append(rng.randint(0, 9))
    return {"A": rows, "b": rhs, "c": [rng.choice([-5, -4, -3, -2, -1, 1, 2, 3, 4, 5]) for _ in range(n)], "floats": rng.random() < 0.5}


def gen_free_direction(rng):
    """a variable that costs nothing and only loosens rows (its column is <= 0): the optimal face is unbounded while the optimum is
    finite; coefficients 3, 5, 7 make the pivots non-dyadic, so a reduced cost that is exactly 0 comes out as +-1e-16 in floats"""
    n, m = rng.randint(2, 3), rng.randint(2, 4)
    vals = [-7, -5, -3, -2, -1, 1, 2, 3, 5, 7]
    A = [[rng.choice(vals) if rng.random() < 0.8 else 0 for _ in range(n)] for _ in range(m)]
    b = [rng.randint(-6, 9) for _ in range(m)]
    c = [rng.randint(-5, 5) for _ in range(n)]
    j = rng.randint(0, n)
    for i in range(m):
        A[i].insert(j, -rng.randint(0, 3))
    c.insert(j, 0)
    return {"A": A, "b": b, "c": c, "floats": rng.random() < 0.5, "max_iters": ()}


def gen(rng, big=False):
    r0 = rng.random()
    if r0 < 0.05:
        return gen_nearly_feasible(rng)
    if r0 >= 0.8:
        return gen_free_direction(rng)
    if r0 < 0.2:
        return gen_cover(rng)
    if r0 < 0.3:
        return gen_degenerate_pairs(rng)
    if r0 < 0.48:
        return gen_equalities(rng)
    m, n = (rng.randint(1, 4), rng.randint(1, 4)) if big else (rng.randint(1, 3), rng.randint(1, 3))
    lim = 3 if max(m, n) == 4 else 5
    style = rng.random()
    A = [[rng.randint(-lim, lim) for _ in range(n)] for _ in range(m)]
    b = [rng.randint(-lim, lim) for _ in range(m)]
    c = [rng.randint(-lim, lim) for _ in range(n)]
    if style < 0.25 and m >= 2:                       # repeated / parallel rows (degenerate vertices, redundancy)
        i, j = rng.sample(range(m), 2)
        k = rng.choice([1, 1, 2]) if lim >= 4 else 1
        A[j] = [max(-lim, min(lim, k * v)) for v in A[i]]
        b[j] = max(-lim, min(lim, k * b[i])) if rng.random() < 0.6 else b[j]
    elif style < 0.4:
        A[rng.randrange(m)] = [0] * n                 # zero row
    elif style < 0.5:
        j = rng.randrange(n)
        for i in range(m):
            A[i][j] = 0                               # zero column
    elif style < 0.7:
        b = [rng.choice([0, 0, 1, 2]) for _ in range(m)]          # ties in the ratio test at the origin
    elif style < 0.85:
        A = [[abs(v) for v in row] for row in A]      # bounded-looking
        b = [abs(v) + 1 for v in b]
    case = {"A": A, "b": b, "c": c, "floats": rng.random() < 0.5}
    if rng.random() < 0.04:
        k = rng.randint(258, 300)
        case["pad"] = [[rng.randrange(m), rng.choice([0, 1, 1, 2, 5])] for _ in range(k)]
    if rng.random() < 0.3:          # small rational data: rows and objective divided by powers of two
        case["rowden"] = [rng.choice([1, 2, 4]) for _ in range(m)]
        case["cden"] = rng.choice([1, 2, 4])
    return case
