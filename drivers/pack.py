"""C16 driver: solve_knapsack / solve_bin_pack on integer or decimal data (scaled integers in the trace)."""
from drivers.labels import cont_mode, seq1, seq2
import random
from decimal import Decimal


def _real(x, scale):
    """scaled int -> the decimal literal a user would write (float), or int when scale == 1"""
    return x if scale == 1 else float(Decimal(x) / Decimal(scale))


def run_knap(case):
    from solvor.knapsack import solve_knapsack
    sc = case["scale"]
    vals = [_real(x, sc) for x in case["values"]]
    wts = [_real(x, sc) for x in case["weights"]]
    cap = _real(case["capacity"], sc)
    K = case.get("vshift", 0)       # huge integer values: K + v with equal weights, so the best selection is the same as for the small v >= 1
    if K:
        vals = [K + v for v in case["values"]]
    events = []
    for minimize in (False, True):
        try:
            cm = cont_mode(case)
            r = solve_knapsack(seq1(vals, cm), seq1(wts, cm), cap, minimize=minimize)
            items = list(r.solution)
            if not all(type(i) is int for i in items):
                events.append({"e": "raise", "what": "non_int_index"})
                continue
            obj = r.objective
            if K:
                obj = (int(obj) if isinstance(obj, float) and obj == int(obj) else obj) - K * len(items)
            o = float(obj) * sc
            events.append({"e": "ret", "status": r.status.name, "minimize": minimize, "items": items, "obj": int(round(o)), "exact": abs(o - round(o)) < 1e-6})
        except Exception as ex:  # noqa: BLE001
            events.append({"e": "raise", "what": type(ex).__name__})
    return {"kind": "knap", "values": case["values"], "weights": case["weights"], "capacity": case["capacity"], "integral": sc == 1,
            "sizes": [], "events": events, "input": case}


def run_bins(case):
    from solvor.bin_pack import solve_bin_pack
    sc = case["scale"]
    sizes = [_real(x, sc) for x in case["sizes"]]
    cap = _real(case["capacity"], sc)
    U = case.get("unit")
    if U:
        # huge integers: sizes a*U and capacity (c+1)*U - 1 admit exactly the packings of sizes a and capacity c (loads are multiples
        # of U).  The same numbers were seen as floats earlier in the process (another data source): that must not change anything
        sizes = [x * U for x in case["sizes"]]
        cap = (case["capacity"] + 1) * U - 1
        try:
            solve_bin_pack([float(x) for x in sizes], float((case["capacity"] + 1) * U))
        except Exception:  # noqa: BLE001
            pass
    events = []
    for alg in ("first-fit", "best-fit", "first-fit-decreasing", "best-fit-decreasing"):
        try:
            r = solve_bin_pack(seq1(sizes, cont_mode(case)), cap, algorithm=alg)
            a = list(r.solution)
            k = float(r.objective)
            events.append({"e": "ret", "status": r.status.name, "alg": alg, "decreasing": alg.endswith("decreasing"), "assignment": [int(x) for x in a],
                           "k": int(round(k)), "exact": abs(k - round(k)) < 1e-9 and all(type(x) is int for x in a)})
        except Exception as ex:  # noqa: BLE001
            events.append({"e": "raise", "what": type(ex).__name__})
    return {"kind": "bins", "sizes": case["sizes"], "capacity": case["capacity"], "values": [], "weights": [], "integral": sc == 1,
            "events": events, "input": case}


def gen_knap(rng):
    n = rng.randint(1, 8)
    sc = rng.choice([1, 1, 10, 100])
    hi = 12 if sc == 1 else (30 if sc == 10 else 200)
    weights = [rng.choice([0, 0, rng.randint(1, hi)]) if rng.random() < 0.2 else rng.randint(1, hi) for _ in range(n)]
    values = [rng.randint(0, hi) for _ in range(n)]
    r = rng.random()
    if r < 0.12:
        cap = 0
    elif r < 0.3:
        k = rng.randint(1, n)
        cap = sum(rng.sample(weights, k))          # items exactly filling the capacity
    else:
        cap = rng.randint(0, max(1, sum(weights)))
    if sc != 1 and rng.random() < 0.5:            # the decimals whose binary sums misbehave
        weights = [rng.choice([1, 2, 3, 7]) * (sc // 10) for _ in range(n)]
        cap = rng.choice([3, 6, 7, 10]) * (sc // 10)
    k = rng.random()
    if k < 0.05:
        # the whole instance at a tiny scale (units of 10^-10): an absolute tolerance on the weight test admits overweight selections
        n = rng.randint(2, 5)
        cap = rng.randint(4, 12)
        if rng.random() < 0.5:
            return {"values": [rng.randint(1, 9) for _ in range(n)], "weights": [rng.randint(cap // 2, cap) for _ in range(n)], "capacity": cap, "scale": 10 ** 10}
        # capacity 0.01 or 0.1, items a hair (below 1e-9) over half of it: two of them do not fit together
        cap = rng.choice([10 ** 8, 10 ** 9])
        return {"values": [rng.randint(1, 9) for _ in range(n)], "weights": [cap // 2 + rng.randint(0, 4) for _ in range(n)], "capacity": cap, "scale": 10 ** 10}
    if k >= 0.16 and k < 0.22:
        # two or three identical items next to each other, all needed in the optimum, and an earlier single item that beats one of them
        # but not the pair
        w, v = rng.randint(2, 5), rng.randint(3, 7)
        t = rng.randint(2, 3)
        comp = [rng.randint(v + 1, 2 * v - 1), rng.randint(w + 1, 2 * w)]
        values = [comp[0]] + [v] * t
        weights = [comp[1]] + [w] * t
        if rng.random() < 0.5:
            values = [rng.randint(0, 4)] + values
            weights = [rng.randint(1, 9)] + weights
        if rng.random() < 0.3:
            values.append(rng.randint(0, 5))
            weights.append(rng.randint(1, 9))
        return {"values": values, "weights": weights, "capacity": t * w + rng.choice([0, 0, 1]), "scale": 1}
    if k < 0.16 and k >= 0.1:
        # four-decimal weights, one valuable item a hair (under 0.001) over the capacity: the scaled DP takes it, the exact re-check
        # rejects that and the greedy fallback has to produce the answer
        n = rng.randint(2, 5)
        cap = rng.randint(10000, 90000)
        weights = [cap + rng.randint(1, 9)] + [rng.randint(cap // 4, cap) for _ in range(n - 1)]
        values = [rng.randint(6, 9)] + [rng.randint(1, 6) for _ in range(n - 1)]
        order = list(range(n))
        rng.shuffle(order)
        return {"values": [values[i] for i in order], "weights": [weights[i] for i in order], "capacity": cap, "scale": 10 ** 4}
    if k < 0.1:
        # integer values beyond 2^53 that differ in their low bits; equal weights, so the best selection is the top few
        n = rng.randint(2, 7)
        return {"values": [rng.randint(1, 6) for _ in range(n)], "weights": [1] * n, "capacity": rng.randint(1, n), "scale": 1,
                "vshift": rng.choice([2 ** 53, 2 ** 53 - 2, 10 ** 16, 2 ** 60 + 1])}
    if rng.random() < 0.06:
        # large integer capacity (beyond 10^5) nearly filled by one heavy item, the rest of the room fits several unit-size items
        cap = rng.randint(100001, 400000)
        k = rng.randint(2, 5)
        room = rng.randint(1, k)
        weights = [cap - room] + [1] * k + [rng.randint(2, cap) for _ in range(rng.randint(0, 2))]
        values = [rng.randint(5, 12)] + [rng.randint(1, 3) for _ in range(k)] + [rng.randint(0, 9) for _ in range(len(weights) - k - 1)]
        order = list(range(len(weights)))
        rng.shuffle(order)
        return {"values": [values[i] for i in order], "weights": [weights[i] for i in order], "capacity": cap, "scale": 1}
    return {"values": values, "weights": weights, "capacity": cap, "scale": sc}


def gen_bins(rng):
    n = rng.randint(1, 7)
    sc = rng.choice([1, 1, 10, 100])
    cap = rng.choice([4, 6, 10, 12]) * (sc if sc > 1 else 1) if sc != 100 else rng.choice([60, 100, 120])
    if sc == 10:
        cap = rng.choice([6, 10, 12])
    sizes = [rng.randint(0 if rng.random() < 0.1 else 1, cap) for _ in range(n)]
    if rng.random() < 0.4:                         # pairs that exactly fill a bin
        a = rng.randint(1, cap - 1)
        sizes[: 2] = [a, cap - a][: len(sizes[: 2])] if n >= 2 else sizes
    if rng.random() < 0.06:
        n = rng.randint(2, 6)
        cap = rng.randint(2, 6)
        return {"sizes": [rng.randint(1, cap) for _ in range(n)], "capacity": cap, "scale": 1, "unit": rng.choice([2 ** 70, 2 ** 70, 10 ** 23 + 1, 2 ** 64 + 3])}
    if rng.random() < 0.08:
        # the whole instance at a tiny scale (units of 10^-9): an absolute fit tolerance would overfill the bins
        n = rng.randint(2, 6)
        cap = rng.randint(1, 6)
        return {"sizes": [rng.randint(1, cap) for _ in range(n)], "capacity": cap, "scale": 10 ** 9}
    if rng.random() < 0.25 and n >= 3:              # several items of exactly half the capacity among smaller ones, shuffled
        k = rng.randint(2, min(4, n))
        sizes = [cap // 2] * k + [rng.randint(1, max(1, cap // 2)) for _ in range(n - k)]
        rng.shuffle(sizes)
    return {"sizes": sizes, "capacity": cap, "scale": sc}
