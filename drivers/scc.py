"""C14 driver: SCC / topological sort / condensation on the same digraph, in shuffled node and neighbour orders."""
from drivers.labels import FreshList
import random


_ODD = [("t",), None, "", 0, (), 1.5, frozenset(), b"", -1, "x", 7, (0, 0), 2.5, "None", frozenset([1]), 99]


def _label(kind, i):
    if kind == "odd":        # any hashable labels: None, falsy values, bytes, frozensets
        return _ODD[i] if i < len(_ODD) else ("odd", i)
    return {"str": "v%d" % i, "tuple": (i % 2, i), "big": 1000 + i}.get(kind, i)


def run_scc(case):
    from solvor.scc import (condense, strongly_connected_components, strongly_connected_components_edges,
                            topological_sort, topological_sort_edges)
    n, m, kind = case["n"], case["m"], case.get("labels", "int")
    labs = FreshList(_label(kind, i) for i in range(m))
    ids = {lb: i for i, lb in enumerate(labs)}
    adj = {lb: [] for lb in labs}
    for u, v in case["edges"]:
        adj[labs[u]].append(labs[v])
    nodes = [labs[i] for i in case["order"]]
    nb = lambda s: list(adj[s])  # noqa: E731
    events = []

    def guard(fn, f):
        try:
            events.append(f())
        except Exception as ex:  # noqa: BLE001
            events.append({"e": "raise", "fn": fn, "what": type(ex).__name__})

    def scc():
        r = strongly_connected_components(iter(nodes), nb)
        return {"e": "ret", "fn": "scc", "status": r.status.name, "comps": [[ids[x] for x in c] for c in r.solution]}
    guard("scc", scc)

    def topo():
        r = topological_sort(iter(nodes), nb)
        return {"e": "ret", "fn": "topo", "status": r.status.name, "order": [ids[x] for x in r.solution] if r.solution is not None else []}
    guard("topo", topo)
    if True:      # condense also with neighbours outside the node set (C14's domain)
        def cond():
            r = condense(iter(nodes), nb)
            cn, ad = r.solution
            pos = {c: i + 1 for i, c in enumerate(cn)}
            return {"e": "ret", "fn": "condense", "status": r.status.name, "comps": [sorted(ids[x] for x in c) for c in cn],
                    "adj": [[pos[s] for s in ad[c]] for c in cn], "nkeys": len(ad)}
        guard("condense", cond)
    if m == n:
        def scce():
            r = strongly_connected_components_edges(n, [tuple(e) for e in case["edges"]], backend="python")
            return {"e": "ret", "fn": "scc_edges", "status": r.status.name, "comps": [[int(x) for x in c] for c in r.solution]}
        guard("scc_edges", scce)

        def topoe():
            r = topological_sort_edges(n, [tuple(e) for e in case["edges"]], backend="python")
            return {"e": "ret", "fn": "topo_edges", "status": r.status.name, "order": [int(x) for x in r.solution] if r.solution is not None else []}
        guard("topo_edges", topoe)
    return {"n": n, "m": m, "edges": [list(e) for e in case["edges"]], "events": events, "input": case}


def run_scc_steps(case):
    """Step level: the scc_visit / scc_finish / scc_pop hook events of one strongly_connected_components call"""
    from solvor import _verif
    from solvor.scc import strongly_connected_components
    n, m, kind = case["n"], case["m"], case.get("labels", "int")
    labs = FreshList(_label(kind, i) for i in range(m))
    ids = {lb: i for i, lb in enumerate(labs)}
    adj = {lb: [] for lb in labs}
    for u, v in case["edges"]:
        adj[labs[u]].append(labs[v])
    nodes = [labs[i] for i in case["order"]]
    _verif.start()
    try:
        strongly_connected_components(iter(nodes), lambda s: list(adj[s]))
    except Exception:  # noqa: BLE001
        pass
    events, dropped = _verif.stop()
    steps = []
    for e in events:
        if e["e"] == "scc_visit":
            steps.append({"k": "visit", "v": ids.get(e["v"], -1), "low": 0, "comp": []})
        elif e["e"] == "scc_finish":
            steps.append({"k": "finish", "v": ids.get(e["v"], -1), "low": int(e["low"]), "comp": []})
        elif e["e"] == "scc_pop":
            steps.append({"k": "pop", "v": -1, "low": 0, "comp": [ids.get(x, -1) for x in e["comp"]]})
    if dropped or not steps:
        return {"skipped": True}
    return {"n": n, "edges": [list(e) for e in case["edges"]], "steps": steps, "input": case}


def gen_siblings(rng):
    """p -> x first, then p -> v; x -> w, w -> x (w reaches up only through x), x -> p; v reaches the component only through w.
    One strongly connected class; whether a Tarjan variant keeps it together depends on the order p lists x and v in"""
    names = list(range(4 + rng.randint(0, 3)))
    rng.shuffle(names)
    p, x, w, v = names[:4]
    rest = names[4:]
    edges = [[p, x], [p, v], [x, w], [x, p], [w, x], [v, w]]
    if rng.random() < 0.3:
        edges[0], edges[1] = edges[1], edges[0]
    for r in rest:                                   # extra nodes hang off the class or feed into it, never give v another way up
        edges.append(rng.choice([[w, r], [r, p], [x, r], [r, r]]))
    order = [p] + rng.sample([x, w, v] + rest, len(rest) + 3)
    n = len(names)
    return {"n": n, "m": n, "edges": edges, "order": order, "labels": rng.choice(["int", "str", "tuple", "big"])}


def gen(rng, nmax=8):
    if nmax >= 8 and rng.random() < 0.08:
        return gen_siblings(rng)
    n = rng.randint(1, nmax)
    k = rng.choice([0, 0, 0, 1, 2])
    m = n + k
    style = rng.random()
    dens = rng.choice([0.1, 0.2, 0.35])
    edges = []
    for u in range(m):
        for v in range(m):
            if style < 0.35 and not (u < v):          # DAG-ish (forward edges only) so that topological orders exist
                continue
            if rng.random() < dens:
                edges.append([u, v])
                if rng.random() < 0.1:
                    edges.append([u, v])               # duplicate edge
    if style < 0.35:
        perm = list(range(m))
        rng.shuffle(perm)
        edges = [[perm[u], perm[v]] for u, v in edges]
    rng.shuffle(edges)
    order = list(range(n))
    rng.shuffle(order)
    return {"n": n, "m": m, "edges": edges, "order": order, "labels": rng.choice(["int", "str", "tuple", "big", "odd"])}
