"""C19 driver: the search heuristics with a recording proxy around integer-valued objectives.

Each case names a solver and a configuration; the worker performs three runs:
  run 1: the configuration; run 2: the same again (reproducibility); run 3: the mirror problem
  (minimize flipped, objective negated).  Points are identified by their repr.
"""
import math
import random
from random import Random


def _key(p):
    if isinstance(p, (list, tuple)):
        return "[" + ",".join(_key(x) for x in p) + "]"
    if isinstance(p, float):
        return repr(p + 0.0)
    return repr(p)


# ---------------------------------------------------------------- objective families (integer valued)
def _disc_f(params):
    a, t, cap = params["a"], params["t"], params["cap"]

    def f(x):
        s = sum(ai * xi for ai, xi in zip(a, x))
        return min(abs(s - t), cap) + (3 if len(set(x)) < len(x) // 2 + 1 else 0)
    return f


def _step_f(params):
    c, k = params["c"], params["k"]
    cap = params.get("cap", 1000)

    def f(x):
        return sum(min(int(math.floor(min(abs(xi - ci), 1e6) * k)), cap) for xi, ci in zip(x, c))      # capped: bounded above
    return f


def _quad(params):
    c, w = params["c"], params["w"]

    def f(x):
        return sum(wi * (xi - ci) ** 2 for xi, ci, wi in zip(x, c, w))

    def g(x):
        return [2 * wi * (xi - ci) for xi, ci, wi in zip(x, c, w)]
    return f, g


def _run_once(case, minimize, negate):
    """one solver run; returns the run record"""
    import solvor
    s = case["solver"]
    seed = case["seed"]
    evals = []
    if case["family"] == "quad":
        base, grad = _quad(case["fparams"])
    else:
        base = (_disc_f if case["family"] == "disc" else _step_f)(case["fparams"])
        grad = None
    sign = -1 if negate else 1
    fscale = case.get("fscale", 1)       # a power of two (exact): objectives of the order 1e-13 or 1e12 are objectives like any other

    def user_f(x):
        return sign * base(x) * fscale

    def proxy(x):
        v = user_f(x)
        evals.append([_key(x), v])
        return v
    n = case.get("n", 4)
    # a progress callback that asks to stop: the early return must still hand back the best candidate seen
    stop_at = case.get("stop_at")
    pk = {"on_progress": (lambda p: p.iteration >= stop_at), "progress_interval": case.get("progress_interval", 1)} if stop_at else {}
    try:
        if s in ("anneal", "tabu_search", "lns", "alns", "evolve"):
            init = tuple(case["init"])
            nrng = Random(seed + 17)          # the callbacks' own randomness (anneal / evolve pass none)

            def flip(sol, rng):
                i = rng.randrange(len(sol))
                return sol[:i] + ((sol[i] + rng.choice([1, -1])) % 4,) + sol[i + 1:]
            if s == "anneal":
                r = solvor.anneal(init, proxy, lambda sol: flip(sol, nrng), minimize=minimize, **pk, temperature=case.get("temperature", 10.0),
                                  cooling=case.get("cooling", 0.95), max_iter=case["max_iter"], seed=seed, **({"min_temp": case["min_temp"]} if "min_temp" in case else {}))
            elif s == "tabu_search":
                def nbrs(sol):
                    out = []
                    for i in range(len(sol)):
                        for d in (1, -1):
                            out.append(((i, d), sol[:i] + ((sol[i] + d) % 4,) + sol[i + 1:]))
                    return out
                r = solvor.tabu_search(init, proxy, nbrs, minimize=minimize, **pk, cooldown=case.get("cooldown", 3), max_iter=case["max_iter"],
                                       max_no_improve=case.get("max_no_improve", 20), seed=seed)
            elif s in ("lns", "alns"):
                def destroy(sol, rng):
                    i = rng.randrange(len(sol))
                    return sol[:i] + (-1,) + sol[i + 1:]

                def destroy2(sol, rng):
                    i, j = rng.randrange(len(sol)), rng.randrange(len(sol))
                    return tuple(-1 if k in (i, j) else v for k, v in enumerate(sol))

                def repair(sol, rng):
                    return tuple(rng.randrange(4) if v == -1 else v for v in sol)

                def repair0(sol, rng):
                    return tuple(0 if v == -1 else v for v in sol)
                acc = case.get("accept", "improving")
                if acc.startswith("cb:"):       # user-supplied acceptance rules (callables): deterministic scripts
                    acc = {"cb:never": lambda cur, new, it, rng: False,
                           "cb:alternate": lambda cur, new, it, rng: it % 2 == 1,
                           "cb:worse_only": lambda cur, new, it, rng: new >= cur,
                           "cb:every_third": lambda cur, new, it, rng: it % 3 == 0}[acc]
                if s == "lns":
                    r = solvor.lns(init, proxy, destroy, repair, minimize=minimize, **pk, accept=acc, max_iter=case["max_iter"],
                                   max_no_improve=case.get("max_no_improve", 30), seed=seed, start_temp=case.get("temperature", 5.0))
                else:
                    r = solvor.alns(init, proxy, [destroy, destroy2], [repair, repair0], minimize=minimize, **pk, accept=acc, max_iter=case["max_iter"],
                                    max_no_improve=case.get("max_no_improve", 30), seed=seed, start_temp=case.get("temperature", 5.0),
                                    segment_size=case.get("segment_size", 5))
            else:
                prng = Random(seed + 5)
                pop = [tuple(prng.randrange(4) for _ in range(len(init))) for _ in range(case.get("pop", 6))]
                pop[0] = init

                def cross(a, b):
                    k = nrng.randrange(1, len(a)) if len(a) > 1 else 0
                    return a[:k] + b[k:]
                r = solvor.evolve(proxy, pop, cross, lambda sol: flip(sol, nrng), minimize=minimize, **pk, elite_size=case.get("elite", 2),
                                  mutation_rate=case.get("mutation_rate", 0.3), max_iter=case["max_iter"], seed=seed,
                                  adaptive_mutation=case.get("adaptive", False))
            sol = r.solution
            sol6 = []
        else:
            bounds = [tuple(b) for b in case["bounds"]]
            x0 = list(case["x0"])
            if s == "differential_evolution":
                wk = {"initial_population": [list(w) for w in case["warm"]]} if case.get("warm") else {}
                r = solvor.differential_evolution(proxy, bounds, minimize=minimize, **pk, **wk, **case.get("kw", {}), population_size=case.get("pop", 6), strategy=case.get("strategy", "rand/1"),
                                                  max_iter=case["max_iter"], seed=seed)
            elif s == "particle_swarm":
                wk = {"initial_positions": [list(w) for w in case["warm"]]} if case.get("warm") else {}     # warm starts, some beyond the box
                r = solvor.particle_swarm(proxy, bounds, minimize=minimize, **pk, **wk, **case.get("kw", {}), n_particles=case.get("pop", 6), max_iter=case["max_iter"], seed=seed)
            elif s == "nelder_mead":
                r = solvor.nelder_mead(proxy, x0, minimize=minimize, **pk, max_iter=case["max_iter"], adaptive=case.get("adaptive", False), initial_step=case.get("step", 0.5))
            elif s == "bayesian_opt":
                r = solvor.bayesian_opt(proxy, bounds, minimize=minimize, max_iter=case["max_iter"], n_initial=case.get("n_initial", 3), seed=seed,
                                        acquisition=case.get("acquisition", "ei"))
            elif s == "powell":
                r = solvor.powell(proxy, x0, minimize=minimize, bounds=bounds if case.get("use_bounds") else None, max_iter=case["max_iter"])
            elif s in ("bfgs", "lbfgs"):
                gsign = sign
                fn = solvor.bfgs if s == "bfgs" else solvor.lbfgs
                r = fn(lambda x: [gsign * gi for gi in grad(x)], x0, minimize=minimize, objective_fn=proxy, max_iter=case["max_iter"])
            else:
                raise ValueError(s)
            sol = list(r.solution)
            sol6 = [int(round(v * 1000000)) for v in sol] if all(math.isfinite(v) and abs(v) < 2000 for v in sol) else [10 ** 9] * len(sol)
        group2 = s in ("powell", "bfgs", "lbfgs")
        o_raw, fs_raw = float(r.objective) / fscale, float(user_f(sol)) / fscale
        if fscale != 1:
            evals[:] = [[k, v / fscale] for k, v in evals]
        if not (math.isfinite(o_raw) and math.isfinite(fs_raw)):
            return {"e": "raise", "what": "non_finite_objective"}
        scale = 1000000 if (case["family"] == "quad" and max(abs(o_raw), abs(fs_raw)) < 2000) else 1
        if max(abs(o_raw), abs(fs_raw)) * scale >= 2e9:
            # too large for the 32-bit projection: compare in the driver's floats, report equal / different values
            same = abs(o_raw - fs_raw) <= 1e-9 * max(1.0, abs(fs_raw))
            o_raw, fs_raw, scale = (1.0, 1.0, 1) if same else (1.0, 9.0, 1)
        o, fs = o_raw * scale, fs_raw * scale
        if group2:
            ev = []                     # only "objective is f at the returned point" and reproducibility are claimed
        else:
            if not all(math.isfinite(v) and abs(v) < 2e9 for _, v in evals):
                return {"e": "raise", "what": "non_finite_or_huge_objective_value"}
            ev = [[k, int(round(v))] for k, v in evals]
        return {"e": "ret", "evals": ev, "sol": _key(sol), "sol6": sol6, "obj": int(round(o)), "exact": scale > 1 or group2 or abs(o - round(o)) < 1e-9,
                "fsol": int(round(fs)), "nevals": int(r.evaluations), "status": r.status.name}
    except Exception as ex:  # noqa: BLE001
        return {"e": "raise", "what": type(ex).__name__}


def run_search(case):
    m = case["minimize"]
    runs = [_run_once(case, m, False), _run_once(case, m, False), _run_once(case, not m, True)]
    group = 2 if case["solver"] in ("powell", "bfgs", "lbfgs") else 1
    bounded = case["solver"] in ("differential_evolution", "particle_swarm", "bayesian_opt")      # the first group's bounded solvers
    lo6 = [int(round(b[0] * 1000000)) for b in case.get("bounds", [])]
    hi6 = [int(round(b[1] * 1000000)) for b in case.get("bounds", [])]
    return {"solver": case["solver"], "group": group, "minimize": m, "bounded": bool(bounded), "lo6": lo6, "hi6": hi6,
            "objtol": 2 if case["family"] == "quad" else 0, "runs": runs, "input": case}


# ---------------------------------------------------------------- generators
DISCRETE = ["anneal", "tabu_search", "lns", "alns", "evolve"]
CONT1 = ["differential_evolution", "particle_swarm", "nelder_mead", "bayesian_opt"]
CONT2 = ["powell", "bfgs", "lbfgs"]


def gen(rng, solver=None):
    s = solver or rng.choice(DISCRETE * 2 + CONT1 * 2 + CONT2)
    case = {"solver": s, "seed": rng.randint(0, 10 ** 6), "minimize": rng.random() < 0.5}
    if s in DISCRETE:
        n = rng.randint(2, 5)
        case.update(family="disc", n=n, init=[rng.randrange(4) for _ in range(n)],
                    fparams={"a": [rng.randint(-3, 4) for _ in range(n)], "t": rng.randint(-4, 8), "cap": rng.choice([2, 3, 50])},
                    max_iter=rng.choice([0, 1, 3, 15, 60]))
        if s == "anneal":
            case.update(temperature=rng.choice([0.5, 10.0, 1000.0]), cooling=rng.choice([0.5, 0.95, 0.9995]))
            if rng.random() < 0.6:
                # the run ends through the temperature floor after a handful of steps, typically while the walk is still improving
                case.update(temperature=rng.choice([0.5, 1.0, 4.0]), cooling=rng.choice([0.3, 0.5, 0.7]), min_temp=rng.choice([1e-3, 0.05, 0.2]),
                            max_iter=rng.choice([15, 60]), init=[rng.choice([0, 3]) for _ in range(n)])
        if s in ("lns", "alns"):
            case.update(accept=rng.choice(["improving", "accept_all", "simulated_annealing", "simulated_annealing",
                                           "cb:never", "cb:alternate", "cb:worse_only", "cb:every_third"]), temperature=rng.choice([0.5, 5.0, 100.0]), segment_size=rng.choice([2, 5]))
        if s == "evolve":
            case.update(pop=rng.choice([4, 6, 9]), elite=rng.choice([1, 2]), mutation_rate=rng.choice([0.1, 0.5, 1.0]), adaptive=rng.random() < 0.3)
        if s == "tabu_search":
            case.update(cooldown=rng.choice([1, 3, 10]), max_no_improve=rng.choice([2, 20]))
    else:
        n = rng.randint(1, 3)
        bounds = [[-rng.choice([1.0, 2.5, 4.0]), rng.choice([1.5, 3.0, 5.0])] for _ in range(n)]
        case.update(n=n, bounds=bounds, x0=[round(rng.uniform(b[0], b[1]), 2) for b in bounds], max_iter=rng.choice([0, 1, 4, 12, 25]))
        if s in CONT2 and s != "powell":
            case.update(family="quad", fparams={"c": [rng.randint(-2, 2) for _ in range(n)], "w": [rng.choice([1, 2, 5]) for _ in range(n)]})
            case["minimize"] = True
        else:
            case.update(family="step", fparams={"c": [round(rng.uniform(b[0], b[1]), 1) for b in bounds], "k": rng.choice([1, 3, 10])})
        if s == "powell":
            case["use_bounds"] = rng.random() < 0.5
        if s in ("differential_evolution", "particle_swarm"):
            case.update(pop=rng.choice([6, 8, 10]), strategy=rng.choice(["rand/1", "best/1", "rand/2"]))
            if rng.random() < 0.5:         # small populations (differential_evolution pads them to 4; the /2 strategies need >= 6),
                # short runs: what was evaluated while setting up must not be forgotten
                case.update(pop=rng.choice([1, 2, 3, 3, 4, 5]), strategy=rng.choice(["rand/1", "best/1"]), max_iter=rng.choice([0, 1, 1, 2, 4]))
        if s in ("differential_evolution", "particle_swarm") and rng.random() < 0.3:
            # rarely used tuning parameters, inside their documented ranges
            case["kw"] = ({"mutation": rng.choice([0.3, 0.8, 1.5]), "crossover": rng.choice([0.0, 0.5, 1.0]), "tol": rng.choice([0.0, 1e-8, 0.5])}
                          if s == "differential_evolution" else
                          {"inertia": rng.choice([0.4, 0.9]), "inertia_decay": rng.choice([None, 0.2]), "cognitive": rng.choice([0.0, 1.5, 2.5]),
                           "social": rng.choice([0.0, 1.5, 2.5]), "v_max": rng.choice([None, 0.1, 10.0])})
        if s in ("differential_evolution", "particle_swarm") and rng.random() < 0.4:
            # warm starts (initial_positions), some of them outside the box, and the objective's centre on one of them: the best point
            # the caller can offer is one the solver may not return
            case["warm"] = [[round(rng.uniform(b[0] - 3, b[1] + 3), 2) for b in bounds] for _ in range(rng.choice([1, 2, 3, 8]))]
            if case["family"] == "step":
                case["fparams"]["c"] = list(case["warm"][0])
        if s == "bayesian_opt":
            case.update(max_iter=rng.choice([1, 3, 6]), n_initial=rng.choice([2, 4]), acquisition=rng.choice(["ei", "ucb"]))
        if s == "nelder_mead":
            case.update(adaptive=rng.random() < 0.3, step=rng.choice([0.05, 0.5, 1.0]))
            if rng.random() < 0.6:
                # a fine-grained objective (steps of 1/100 or 1/1000) and a short run: reflected, expanded and best vertex get three
                # different values, and whatever the last iterations throw away is not recovered later
                case["fparams"]["k"] = rng.choice([100, 1000])
                case["fparams"]["cap"] = 100000
                case["max_iter"] = rng.choice([1, 2, 3, 4, 6, 12])
    if s not in ("bayesian_opt", "powell", "bfgs", "lbfgs") and rng.random() < (0.6 if s == "evolve" else 0.25):
        case["stop_at"] = rng.choice([1, 1, 2, 3, 5, 8])
        case["progress_interval"] = rng.choice([1, 1, 2])
        case["max_iter"] = max(case["max_iter"], rng.choice([4, 15, 30]))
        if s == "evolve" and rng.random() < 0.7:
            case["elite"] = 0             # no elitism: a generation can lose the best individual seen so far
    if case["family"] != "quad" and s != "bayesian_opt" and rng.random() < 0.2:
        case["fscale"] = rng.choice([2.0 ** -43, 2.0 ** -43, 2.0 ** -60, 2.0 ** 40])     # improving steps far below 1e-12, or huge
    return case
