"""C15 driver: articulation points, bridges, k-cores, PageRank, Louvain on graphs given by neighbour functions."""
from drivers.labels import FreshList
import random
from fractions import Fraction


_ODD = [None, "", 0, (), 1.5, frozenset(), b"", ("t",), -1, "x", 7, (0, 0), 2.5, "None", frozenset([1]), 99]


def _label(kind, i):
    if kind == "odd":        # "any hashable node type": None, falsy values, bytes, frozensets - not mutually orderable
        return _ODD[i] if i < len(_ODD) else ("odd", i)
    if kind == "fset":       # frozensets: `<` is the subset test, not a total order
        return frozenset([i]) if i % 2 else frozenset([i, i + 1, 100])
    return "v%02d" % i if kind == "str" else ((i, "g") if kind == "tuple" else (1000 + i if kind == "big" else i))


def run_gp(case):
    from solvor.articulation import articulation_points, bridges
    from solvor.community import louvain
    from solvor.kcore import kcore, kcore_decomposition
    from solvor.pagerank import pagerank
    n, kind = case["n"], case.get("labels", "int")
    labs = FreshList(_label(kind, i) for i in range(n))
    ids = {lb: i for i, lb in enumerate(labs)}
    adj = {lb: [] for lb in labs}
    for u, v in case["edges"]:
        adj[labs[u]].append(labs[v])
    nodes = [labs[i] for i in case["order"]]
    nb = lambda s: list(adj[s])  # noqa: E731
    events = []

    def guard(fn, f):
        try:
            events.append(f())
        except Exception as ex:  # noqa: BLE001
            events.append({"e": "raise", "fn": fn, "what": type(ex).__name__})

    # asymmetric neighbour lists are part of C15's domain: the graph is undirected, an edge exists when either end lists the other
    guard("articulation", lambda: {"e": "ret", "fn": "articulation", "nodes": sorted(ids[x] for x in articulation_points(iter(nodes), nb).solution)})
    if kind != "odd":        # bridges documents its edges as (u, v) with u < v: labels have to be comparable
        # frozenset labels are only partially ordered, so "u < v" fixes no orientation there: the pair is recorded by position
        fix = (lambda p: sorted(p)) if kind == "fset" else (lambda p: p)
        guard("bridges", lambda: {"e": "ret", "fn": "bridges", "edges": [fix([ids[a], ids[b]]) for a, b in bridges(iter(nodes), nb).solution]})

    def kd():
        r = kcore_decomposition(iter(nodes), nb)
        return {"e": "ret", "fn": "kcore_decomposition", "cores": sorted([ids[k], int(v)] for k, v in r.solution.items()), "maxcore": int(r.objective)}
    guard("kcore_decomposition", kd)
    for k in case["ks"]:
        guard("kcore", lambda k=k: {"e": "ret", "fn": "kcore", "k": k, "nodes": sorted(ids[x] for x in kcore(iter(nodes), nb, k).solution)})
    for dp, dq, tol6 in case["pr"]:
        def pr(dp=dp, dq=dq, tol6=tol6):
            r = pagerank(iter(nodes), nb, damping=dp / dq, tol=tol6 * 1e-6, max_iter=2000)
            sc = [r.solution[labs[i]] for i in range(n)]
            if any(not (x == x) or abs(x) > 10 for x in sc):
                return {"e": "raise", "fn": "pagerank", "what": "non_finite_score"}
            return {"e": "ret", "fn": "pagerank", "status": r.status.name, "dp": dp, "dq": dq, "tol6": tol6, "scores": [int(round(x * 1000000)) for x in sc]}
        guard("pagerank", pr)
    for rp, rq in case["res"]:
        def lv(rp=rp, rq=rq):
            r = louvain(iter(nodes), nb, resolution=rp / rq)
            return {"e": "ret", "fn": "louvain", "status": r.status.name, "rp": rp, "rq": rq,
                    "comms": [sorted(ids[x] for x in c) for c in r.solution], "mod6": int(__import__("math").floor(float(r.objective) * 1000000 + 0.5))}
        guard("louvain", lv)
    return {"n": n, "edges": [list(e) for e in case["edges"]], "events": events, "input": case}


def gen_hub(rng):
    """a hub listed first with three or four branches hanging off it; inside a branch the node next to the hub has one or two
    children, some of which link back to the hub (so that node is, or is not, a cut vertex depending on the back links)"""
    edges, n = [], 1
    for _ in range(rng.randint(3, 4)):
        c = n
        n += 1
        edges += [[0, c], [c, 0]]
        for _ in range(rng.randint(0, 2)):
            k = n
            n += 1
            edges += [[c, k], [k, c]]
            if rng.random() < 0.4:
                edges += [[k, 0], [0, k]] if rng.random() < 0.5 else [[k, 0]]
    rest = list(range(1, n))
    rng.shuffle(rest)
    # the hub's own neighbour list in a random order (which branch the DFS enters third matters)
    hub = [e for e in edges if e[0] == 0]
    rng.shuffle(hub)
    edges = hub + [e for e in edges if e[0] != 0]
    return {"n": n, "edges": edges, "order": [0] + rest, "symmetric": True, "labels": rng.choice(["int", "str", "tuple", "big"]),
            "ks": [0, 1, 2], "pr": [[17, 20, 1]], "res": [[1, 1]]}


def gen(rng, nmax=9):
    if nmax >= 9 and rng.random() < 0.15:
        return gen_hub(rng)
    n = rng.randint(1, nmax)
    sym = rng.random() < 0.7
    dens = rng.choice([0.15, 0.25, 0.4, 0.6])
    edges = []
    for u in range(n):
        for v in range(u, n):
            if rng.random() < dens:
                if u == v:
                    edges.append([u, u])
                    continue
                if sym:
                    edges += [[u, v], [v, u]]
                else:
                    edges.append(rng.choice([[u, v], [v, u]]))
                    if rng.random() < 0.4:
                        edges.append([v, u] if edges[-1] == [u, v] else [u, v])
                if rng.random() < 0.15:
                    edges += [[u, v], [v, u]] if sym else [[u, v]]           # duplicate neighbours
    if sym and rng.random() < 0.5 and n >= 4:                                     # chain two blobs by a bridge
        a, b = rng.randrange(n // 2), n // 2 + rng.randrange(n - n // 2)
        edges = [e for e in edges if (e[0] < n // 2) == (e[1] < n // 2)] + [[a, b], [b, a]]
    rng.shuffle(edges)
    order = list(range(n))
    rng.shuffle(order)
    return {"n": n, "edges": edges, "order": order, "symmetric": sym, "labels": rng.choice(["int", "str", "tuple", "big", "odd", "fset"]),
            "ks": sorted({0, 1, 2, rng.randint(0, 4)}),
            "pr": [[17, 20, 1], [rng.choice([1, 5, 9, 19]), 20, rng.choice([1, 100])]],
            "res": [[1, 1], [rng.choice([1, 2, 3, 5]), rng.choice([1, 2, 4])]]}
