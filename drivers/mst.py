"""C13 driver: kruskal / prim on the same undirected multigraph; the UnionFind calls inside kruskal are recorded too."""
from drivers.labels import FreshList
import random

INF = float("inf")


def _proj(x, scale):
    if x in (INF, -INF) or x != x:
        return -1, True
    v = x * scale
    r = round(v)
    return int(r), abs(v - r) <= 1e-9


_ODD = [None, "", 0, (), 1.5, frozenset(), b"", ("t",), -1, "x", 7, (0, 0), 2.5, "None", frozenset([1]), 99]


def _label(kind, i):
    if kind == "odd":        # any hashable labels, not mutually orderable: None, falsy values, bytes, frozensets
        return _ODD[i] if i < len(_ODD) else ("odd", i)
    return {"str": "n%d" % i, "tuple": (i, "k"), "float": i + 0.5, "big": 1000 + i}.get(kind, i)


def run_mst(case):
    import solvor.mst as mst
    from solvor.utils import UnionFind
    n, scale = case["n"], case.get("wscale", 1)
    E = [(u, v, w / scale) for u, v, w in case["edges"]]
    events, uf_traces = [], []

    class RecUF(UnionFind):
        __slots__ = ("log",)

        def __init__(self, k):
            super().__init__(k)
            self.log = []
            uf_traces.append({"kind": "uf_hist", "n": k, "events": self.log, "input": {"from": "kruskal", "case": case}})

        def union(self, x, y):
            r = UnionFind.union(self, x, y)
            self.log.append({"op": "union", "x": x, "y": y, "ret": r} if type(r) is bool else {"op": "raise", "what": "union_returned_non_bool"})
            return r

    def ret(solver, r, allow_forest, tree_ids):
        ev = {"e": "ret", "solver": solver, "status": r.status.name, "allow_forest": allow_forest, "tree": [], "obj": -1, "exact": True}
        if r.solution is not None:
            tr = [(tree_ids(a), tree_ids(b), _proj(float(w), scale)) for a, b, w in r.solution]
            ev["tree"] = [[a, b, p[0]] for a, b, p in tr]
            o, ex = _proj(float(r.objective), scale)
            ev["obj"], ev["exact"] = o, ex and all(p[1] for _, _, p in tr)
        return ev

    orig = mst.UnionFind
    mst.UnionFind = RecUF
    try:
        for af in (False, True):
            try:
                events.append(ret("kruskal", mst.kruskal(n, E, allow_forest=af, backend="python"), af, int))
            except Exception as ex:  # noqa: BLE001
                events.append({"e": "raise", "solver": "kruskal", "what": type(ex).__name__})
    finally:
        mst.UnionFind = orig
    kind = case.get("labels", "int")
    labs = FreshList(_label(kind, i) for i in range(n))
    ids = {lb: i for i, lb in enumerate(labs)}
    g = {lb: [] for lb in labs}
    for u, v, w in E:
        g[labs[u]].append((labs[v], w))
        if u != v or case.get("double_self_loops"):
            g[labs[v]].append((labs[u], w))
    for k, st in enumerate(case.get("starts", [None])):
        try:
            # the signature admits any Iterable of (neighbour, weight): every other call hands over one-shot iterators / tuples
            gg = g if k % 3 == 0 else ({a: iter(list(b)) for a, b in g.items()} if k % 3 == 1 else {a: tuple(b) for a, b in g.items()})
            r = mst.prim(gg, start=labs[st]) if st is not None else mst.prim(gg)
            events.append(ret("prim", r, False, lambda a: ids[a]))
        except Exception as ex:  # noqa: BLE001
            events.append({"e": "raise", "solver": "prim", "what": type(ex).__name__})
    # call history on ONE adjacency dict: its neighbour lists are edited in place (same keys) and prim is asked again
    more = []
    for k, E2 in enumerate(case.get("edits", [])):
        new = {lb: [] for lb in labs}
        for u, v, w in E2:
            new[labs[u]].append((labs[v], w / scale))
            if u != v:
                new[labs[v]].append((labs[u], w / scale))
        for lb in g:
            g[lb][:] = new[lb]
        try:
            ev2 = [ret("prim", mst.prim(g), False, lambda a: ids[a])]
        except Exception as ex:  # noqa: BLE001
            ev2 = [{"e": "raise", "solver": "prim", "what": type(ex).__name__}]
        more.append({"n": n, "edges": [list(e) for e in E2], "events": ev2, "input": {"hist": case, "index": k}})
    return {"main": {"n": n, "edges": [list(e) for e in case["edges"]], "events": events, "input": case}, "uf": uf_traces, "more": more}


def gen(rng, nmax=9):
    if nmax >= 9 and rng.random() < 0.12:
        # dense: complete graphs and heavy multigraphs - the frontier of prim grows far beyond the number of nodes
        n = rng.randint(4, 12)
        edges = [[u, v, rng.randint(1, 30)] for u in range(n) for v in range(u + 1, n)]
        if n <= 6:
            edges += [[rng.randrange(n), rng.randrange(n), rng.randint(1, 30)] for _ in range(rng.randint(6, 14))]
        rng.shuffle(edges)
        return {"n": n, "edges": edges, "wscale": 1, "labels": rng.choice(["int", "str", "big"]), "starts": [None, rng.randrange(n), rng.randrange(n)]}
    n = rng.randint(1, nmax)
    m = rng.randint(0, min(18, n * 3)) if n <= 9 else rng.randint(n, 2 * n + 6)      # larger graphs: union-find trees of rank >= 2
    neg = rng.random() < 0.3
    few = rng.random() < 0.5     # few distinct weights -> many ties
    edges = []
    for _ in range(m):
        u, v = rng.randrange(n), rng.randrange(n)
        w = rng.choice([1, 2]) if few else rng.randint(-4 if neg else 0, 9)
        edges.append([u, v, w])
        if rng.random() < 0.15:
            edges.append([v, u, w + rng.choice([0, 1, -1])])       # parallel edge
    if rng.random() < 0.6 and n > 1:     # make it connected more often
        perm = list(range(n))
        rng.shuffle(perm)
        for a, b in zip(perm, perm[1:]):
            edges.append([a, b, rng.randint(0, 9)])
    rng.shuffle(edges)
    case = {"n": n, "edges": edges, "wscale": rng.choice([1, 1, 4]), "labels": rng.choice(["int", "str", "tuple", "float", "odd", "big"]),
            "starts": [None, rng.randrange(n), rng.randrange(n)]}
    if rng.random() < 0.3 and edges:
        edits = []
        cur = [list(e) for e in edges]
        for _ in range(rng.randint(1, 2)):
            cur = [list(e) for e in cur]
            for _ in range(rng.randint(1, 3)):
                r = rng.random()
                if r < 0.5 and cur:
                    cur[rng.randrange(len(cur))][2] = rng.randint(0, 9)         # reprice an edge
                elif r < 0.75 and len(cur) > 1:
                    cur.pop(rng.randrange(len(cur)))                              # drop an edge
                else:
                    cur.append([rng.randrange(n), rng.randrange(n), rng.randint(0, 9)])
            edits.append(cur)
        case["edits"] = edits
    return case
