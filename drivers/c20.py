"""C20 driver: UnionFind / FenwickTree histories and per-transition replay.

Worker-side functions (run_*) execute the real classes from /repo's working tree; generator-side functions
build cases.  Projection: return values are copied as they are (bool/int), floats are mapped to integers in
units of 1/4 and flagged exact=False when they are not within 1e-9 of such a value.
"""
import random

SCALE = 4


def _typed(val, typ):
    return type(val) is typ


def _q(x):
    """float -> (scaled int, exact?)"""
    try:
        v = float(x) * SCALE
    except Exception:  # noqa: BLE001
        return 0, False
    r = round(v)
    return int(r), abs(v - r) <= 1e-9 and abs(r) < 2 ** 30


# ------------------------------------------------------------------ worker side
def _uf_apply(uf, op, x, y):
    """Returns event dict for one public call."""
    if op == "union":
        r = uf.union(x, y)
        if not _typed(r, bool):
            return {"op": "raise", "what": "union_returned_non_bool"}
        return {"op": op, "x": x, "y": y, "ret": r}
    if op == "connected":
        r = uf.connected(x, y)
        if not _typed(r, bool):
            return {"op": "raise", "what": "connected_returned_non_bool"}
        return {"op": op, "x": x, "y": y, "ret": r}
    if op == "find":
        r = uf.find(x)
        if not _typed(r, int):
            return {"op": "raise", "what": "find_returned_non_int"}
        return {"op": op, "x": x, "ret": r}
    if op == "count":
        r = uf.component_count
        if not _typed(r, int):
            return {"op": "raise", "what": "count_non_int"}
        return {"op": op, "ret": r}
    if op == "sizes":
        r = uf.component_sizes()
        return {"op": op, "ret": sorted(int(v) for v in r)}
    if op == "components":
        r = uf.get_components()
        return {"op": op, "ret": sorted(sorted(int(v) for v in c) for c in r)}
    if op == "len":
        return {"op": op, "ret": len(uf)}
    raise ValueError(op)


def run_uf_hist(case):
    from solvor.utils import UnionFind
    n = case["n"]
    events = []
    try:
        uf = UnionFind(n)
        for op, x, y in case["ops"]:
            events.append(_uf_apply(uf, op, x, y))
            if events[-1]["op"] == "raise":
                break
    except Exception as ex:  # noqa: BLE001
        events.append({"op": "raise", "what": type(ex).__name__})
    return {"kind": "uf_hist", "n": n, "input": case, "events": events}


def run_uf_many(case):
    """several short-lived UnionFind objects of one size, created and dropped one after the other in one process (what a loop over
    candidate partitions does): each is its own trace; state kept outside the object (a cache keyed by address or size) shows up
    as one object answering for another"""
    out = []
    for k, ops in enumerate(case["rounds"]):
        tr = run_uf_hist({"n": case["n"], "ops": ops})
        tr["input"] = {"many": case, "index": k}
        out.append(tr)
    return {"traces": out}


def gen_uf_many(rng):
    n = rng.randint(3, 8)
    rounds = []
    for _ in range(rng.randint(3, 7)):
        ops = [("union", rng.randrange(n), rng.randrange(n)) for _ in range(rng.randint(1, 3))]
        ops += [("components", 0, 0), ("sizes", 0, 0), ("count", 0, 0), ("connected", rng.randrange(n), rng.randrange(n)), ("find", rng.randrange(n), 0)]
        if rng.random() < 0.5:
            ops += [("union", rng.randrange(n), rng.randrange(n)), ("components", 0, 0)]
        rounds.append(ops)
    return {"n": n, "rounds": rounds}


def run_uf_step(case):
    """Put a real object into a TLC-enumerated implementation state and apply every call to it."""
    from solvor.utils import UnionFind
    n = case["n"]
    out = []
    ops = [("find", x, 0) for x in range(n)] + [(o, x, y) for o in ("union", "connected") for x in range(n)
                                               for y in range(n)] + [("components", 0, 0), ("sizes", 0, 0)]
    for op, x, y in ops:
        try:
            uf = UnionFind(n)
            uf._parent = list(case["parent"])
            uf._rank = list(case["rank"])
            uf._count = case["count"]
            ev = _uf_apply(uf, op, x, y)
            ev["pre"] = {"parent": case["parent"], "rank": case["rank"], "count": case["count"]}
            ev["post"] = {"parent": list(uf._parent), "rank": list(uf._rank), "count": uf.component_count}
        except Exception as ex:  # noqa: BLE001
            ev = {"op": "raise", "what": type(ex).__name__}
        out.append({"kind": "uf_step", "n": n, "input": {"state": case, "op": [op, x, y]}, "events": [ev]})
    return out


def run_fw_hist(case):
    from solvor.utils import FenwickTree
    events = []
    init = case["init"]          # scaled integers (units of 1/4)
    K = case.get("shift", 0)     # huge integers: every cell holds K + small (all multiples of 1), "exactly as a plain array" means exact ints
    try:
        if K:
            if case.get("zeros"):
                ft = FenwickTree(len(init))
                for i in range(len(init)):
                    ft.update(i, K)
            else:
                ft = FenwickTree([K + v // SCALE for v in init])
        elif case.get("zeros"):
            ft = FenwickTree(len(init))
        else:
            ft = FenwickTree([v / SCALE for v in init])

        def unshift(x, cells):
            if not K:
                return x
            if isinstance(x, float) and x == int(x):
                x = int(x)
            return x - K * cells
        for ev in case["ops"]:
            op = ev[0]
            if op == "update":
                ft.update(ev[1], ev[2] // SCALE if K else ev[2] / SCALE)
                events.append({"op": "update", "i": ev[1], "d": ev[2]})
            elif op == "prefix":
                r, ex = _q(unshift(ft.prefix(ev[1]), ev[1] + 1))
                events.append({"op": "prefix", "i": ev[1], "ret": r, "exact": ex})
            elif op == "range":
                r, ex = _q(unshift(ft.range_sum(ev[1], ev[2]), ev[2] - ev[1] + 1))
                events.append({"op": "range", "lo": ev[1], "hi": ev[2], "ret": r, "exact": ex})
            elif op == "tree" and K:
                continue
            elif op == "len":
                events.append({"op": "len", "ret": len(ft)})
            elif op == "tree":
                t = [_q(v) for v in ft._tree]
                if all(e for _, e in t):
                    events.append({"op": "tree", "t": [v for v, _ in t]})
    except Exception as ex:  # noqa: BLE001
        events.append({"op": "raise", "what": type(ex).__name__})
    return {"kind": "fw_hist", "init": init, "input": case, "events": events}


# ------------------------------------------------------------------ generator side
def gen_uf_binomial(rng):
    """binomial trees: merge roots pairwise so that trees of rank k (depth k) arise, then read from the deepest leaves -
    the shape on which path compression actually rewrites several pointers"""
    k = rng.randint(2, 5)
    n = (1 << k) * rng.randint(1, 2) + rng.randint(0, 3)
    ops = []
    step = 1
    while step < (1 << k):
        for base in range(0, n - step, 2 * step):
            a, b = base, base + step
            ops.append(("union", a, b) if rng.random() < 0.5 else ("union", b, a))
        step *= 2
    for _ in range(rng.randint(3, 25)):
        r = rng.random()
        x, y = rng.randrange(n), rng.randrange(n)
        if r < 0.4:
            ops.append(("find", x, 0))
        elif r < 0.6:
            ops.append(("connected", x, y))
        elif r < 0.75:
            ops.append(("union", x, y))
        elif r < 0.85:
            ops.append(("components", 0, 0))
        elif r < 0.93:
            ops.append(("sizes", 0, 0))
        else:
            ops.append(("count", 0, 0))
    return {"n": n, "ops": ops}


def gen_uf_hist(rng, nmax=64, maxops=200):
    if rng.random() < 0.25:
        return gen_uf_binomial(rng)
    n = rng.choice([1, 2, 3, 4, 5, 6, 8, 12, 16, 33, nmax]) if rng.random() < 0.7 else rng.randint(1, nmax)
    k = rng.randint(1, maxops)
    ops = []
    dense = rng.random() < 0.5        # dense: few elements touched repeatedly -> repeated unions, deep compress
    pool = list(range(n)) if not dense else [rng.randrange(n) for _ in range(max(2, n // 3))]
    for _ in range(k):
        r = rng.random()
        x, y = rng.choice(pool), rng.choice(pool)
        if r < 0.45:
            ops.append(("union", x, y))
        elif r < 0.60:
            ops.append(("connected", x, y))
        elif r < 0.75:
            ops.append(("find", x, 0))
        elif r < 0.85:
            ops.append(("count", 0, 0))
        elif r < 0.90:
            ops.append(("sizes", 0, 0))
        elif r < 0.95:
            ops.append(("components", 0, 0))
        elif r < 0.97:
            ops.append(("union", x, x))
        else:
            ops.append(("len", 0, 0))
    return {"n": n, "ops": ops}


def gen_fw_hist(rng, nmax=40, maxops=120):
    n = rng.choice([1, 2, 3, 4, 5, 7, 8, 9, 15, 16, 17, 31, 32, 33, nmax]) if rng.random() < 0.7 else rng.randint(1, nmax)
    zeros = rng.random() < 0.15
    init = [0] * n if zeros else [rng.randint(-20, 20) for _ in range(n)]
    ops = []
    for _ in range(rng.randint(1, maxops)):
        r = rng.random()
        if r < 0.4:
            ops.append(("update", rng.randrange(n), rng.randint(-20, 20)))
        elif r < 0.7:
            ops.append(("prefix", rng.randrange(n)))
        elif r < 0.93:
            lo = rng.randrange(n)
            ops.append(("range", lo, rng.randint(lo, n - 1)))
        elif r < 0.97:
            ops.append(("tree",))
        else:
            ops.append(("len",))
    case = {"init": init, "zeros": zeros, "ops": ops}
    if rng.random() < 0.12:
        case["shift"] = rng.choice([2 ** 53, 2 ** 53 + 1, 10 ** 17, 2 ** 62 + 3])
        case["init"] = [v * SCALE for v in init]
        case["ops"] = [(o[0], o[1], o[2] * SCALE) if o[0] == "update" else o for o in ops]
    return case
